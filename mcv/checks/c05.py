"""C05 -- left/right pairs merge into one stereo file; no sample is lost or duplicated."""
import itertools

from mcv.engine import core, tree
from mcv.engine.core import CheckBase, Report, exc_sig
from mcv.gen import akai as A
from mcv.gen import roland as R
from mcv.ref import names as N

AKAI_NAMES = ["A", "A L", "A R", "A-L", "A-R", "A  L", "A -L", "A -R", "AL", "L", "-L", "B L", "B R", "A.L"]
AKAI_N4 = ["A", "A L", "A R", "A -L", "A  L", "A  R"]
ROLAND_NAMES = ["A", "A L", "A R", "A-L", "a L", "A (2)", "A (2) L", "A R ", "B-R", "A l", "A r", "A  L", "A  R"]   # (two blanks: another stem than 'A L' / 'A R')
LEN_EQ = [10, 10, 10, 10]
LEN_UNEQ = [10, 7, 9, 8]
LEN_ONE = [1, 1, 1, 1]                  # a single frame
LEN_BLOCK1 = [2049, 2049, 2049, 2049]   # one frame more than the transcoder's 4096-byte block
LEN_FRAG = [9000, 9000, 9000, 9000]     # three sectors each, stored on chains with backward links (see akai_image)


AKAI_RATES = [44100, 22050, 32000, 48000]
ROLAND_FREQS = [1, 3, 2, 0]


def akai_image(names, lens, rates="same", hdr=None):
    files = []
    for i, (nm, n) in enumerate(zip(names, lens)):
        ch = [4 + i]
        if n > 4026:
            # multi-sector files on fragmented chains, each in another order (head highest / zigzag / head lowest but crossing)
            m = A.needed_sectors(140 + 2 * n)
            base = 4 + 3 * i
            ch = [[base + 2, base, base + 1], [base + 1, base + 2, base], [base, base + 2, base + 1], [base + 2, base + 1, base]][i % 4][:m] \
                if m == 3 else [base + 1, base]
        files.append({"name": nm, "n": n, "chain": ch, "seq": i + 1, "rate": AKAI_RATES[i % 4] if rates == "diff" else 44100})
        # the name stored INSIDE the sample header is not the sibling name (file renamed / copied on the sampler): the
        # directory names decide
        if hdr == "rot":
            files[-1]["hdr"] = {"sname": names[(i + 1) % len(names)].strip() or "X"}
        elif hdr == "lr":
            files[-1]["hdr"] = {"sname": "DRUM " + "LR"[i % 2]}
        elif hdr == "flavours":
            # S1000-type and S3000-type samples side by side in one volume
            if i % 2:
                files[-1]["sid"], files[-1]["ftype"] = 1, 0x73
    spec = {"parts": [{"vols": [{"name": "VOL", "dir": [3], "files": files}]}]}
    model = A.model_from_spec(spec)
    img, _ = A.build_akai(model)
    pcms = {i: A.words_bytes(A.pcm_words(i + 1, n)) for i, n in enumerate(lens[:len(names)])}
    return img, pcms, "A/VOL/"


def roland_image(names, lens, rates="same"):
    samples = {}
    for i, (nm, n) in enumerate(zip(names, lens)):
        samples[i] = {"name": nm, "chain": [2 + i], "points": [0, 0, n - 1, 0, n - 1], "mode": 2, "seq": i + 1,
                      "freq": ROLAND_FREQS[i % 4] if rates == "diff" else 1}
    partials = {}
    idx = sorted(samples)
    for k in range(0, len(idx), 4):
        partials[k // 4] = {"name": f"PART{k // 4}", "samples": idx[k:k + 4]}
    model = {"volumes": [{"name": "VOL", "perfs": [0]}], "performances": {0: {"name": "PERF", "patches": [0]}},
             "patches": {0: {"name": "PATCH", "partials": sorted(partials)}}, "partials": partials, "samples": samples}
    img, _ = R.build_roland(model)
    pcms = {i: R.words_bytes(R.pcm_words(i + 1, n)) for i, n in enumerate(lens[:len(names)])}
    return img, pcms, "VOL/PERF/"


def judge(names, lens, res, pcms, prefix, conservation_only=False):
    """Statement-level oracle. names: stored names (padding stripped). -> (ok, klass, detail)"""
    if res["status"] == "hang":
        return False, "hang", {"observed": "non-termination"}
    if res["status"] == "exc":
        return False, "raised:" + exc_sig(res["exc"]), {"observed": repr(res["exc"])[:300]}
    files = res["files"]
    outside = [p for p in files if not p.startswith(prefix)]
    if outside:
        return False, "file-outside-directory", {"files": outside[:4]}
    occ, errs = tree.channel_map(files, pcms)
    if errs:
        return False, "foreign-or-invalid", {"errors": errs[:3]}
    lost = [names[i] for i, o in occ.items() if not o]
    dup = [names[i] for i, o in occ.items() if len(o) > 1]
    if lost or dup:
        return False, "lost" if lost else "duplicated", {"lost": lost, "duplicated": dup, "files": sorted(files),
                                                          "exported_lines": res["reported"]}
    from mcv.ref import riff
    total_channels = sum(riff.validate(b).fmt["channels"] for b in files.values())
    if total_channels != len(names):
        return False, "channel-sum", {"channels": total_channels, "samples": len(names), "files": sorted(files)}
    if conservation_only:
        # names that only BECOME an L/R form when they are made file-system safe (a trailing dot / blank is dropped): whether
        # such names pair is not settled by the statement; nothing may be lost or written twice
        if sorted(res["reported"]) != sorted(files):
            return False, "reported-vs-disk", {"reported": sorted(res["reported"]), "files": sorted(files)}
        return True, "ok:conservation", None
    pairs, amb, mono = N.pair_analysis(names)
    claimed = [N.wordkey(names[i]) for i in mono] + [N.wordkey(names[i]) for i in amb] + [N.wordkey(s) for _, _, s in pairs]
    for iL, iR, stem in pairs:
        (pl, cl, nl), (pr, cr, nr) = occ[iL][0], occ[iR][0]
        if not (pl == pr and nl == 2 and cl == 0 and cr == 1):
            return False, "pair-not-merged", {"L": names[iL], "R": names[iR], "L_at": [pl, cl, nl], "R_at": [pr, cr, nr]}
        if lens[iL] == lens[iR]:
            w = riff.validate(files[pl])
            if len(w.data) != 4 * lens[iL]:
                return False, "pair-frames", {"expected_frames": lens[iL], "data_bytes": len(w.data)}
        safe = not N.component_errors(stem) if stem else False
        if safe and claimed.count(N.wordkey(stem)) == 1:
            if pl != prefix + stem + ".wav":
                return False, "pair-name", {"expected": prefix + stem + ".wav", "observed": pl}
    for i in mono:
        p, c, n = occ[i][0]
        if n != 1:
            return False, "mono-in-stereo", {"sample": names[i], "at": [p, c, n]}
    # any 2-channel file: L-named sample in channel 0, R-named sample of the same stem in channel 1
    byfile = {}
    for i, o in occ.items():
        byfile.setdefault(o[0][0], {})[o[0][1]] = i
    for p, ch in byfile.items():
        if len(ch) == 2:
            a, b = N.lr_prefix(names[ch[0]]), N.lr_prefix(names[ch[1]])
            if not (a and b and a[1] == "L" and b[1] == "R" and N.stem_of(a[0]) == N.stem_of(b[0])):
                return False, "stereo-of-non-pair", {"file": p, "ch0": names[ch[0]], "ch1": names[ch[1]]}
    if sorted(res["reported"]) != sorted(files):
        return False, "reported-vs-disk", {"reported": sorted(res["reported"]), "files": sorted(files)}
    kl = f"ok:{len(pairs)}pairs:{len(amb)}amb:{len(mono)}mono"
    return True, kl, None


def big_names(n, i, j, rev=False):
    """n siblings, all plain fillers except an L/R pair stored at positions i and j"""
    names = ["F%03d" % k for k in range(n)]
    names[i], names[j] = ("PAD R", "PAD L") if rev else ("PAD L", "PAD R")
    return names


def run_case(case):
    names = case["names"] if "big" not in case else big_names(*case["big"])
    lens = {"eq": LEN_EQ, "uneq": LEN_UNEQ, "one": LEN_ONE, "block1": LEN_BLOCK1, "frag": LEN_FRAG}[case["lens"]]
    if len(names) > len(lens):
        lens = (list(lens) * (len(names) // len(lens) + 1))[:len(names)]
    if "big" in case:
        lens = [10 + (k % 3) for k in range(len(names))]
        lens[case["big"][1]] = lens[case["big"][2]] = 12
    if case["fmt"] == "akai":
        img, pcms, prefix = akai_image(names, lens, case.get("rates", "same"), case.get("hdr"))
    else:
        img, pcms, prefix = roland_image(names, lens, case.get("rates", "same"))
    res = tree.full_run(img, cpu_s=30.0, ls_paths=(), again=len(names) <= 2 or "big" in case)
    if res.get("again") and res["status"] == "ok":
        return False, "second-export-differs", res["again"]
    stored = [n.rstrip(" ") for n in names]
    return judge(stored, lens, res, pcms, prefix, conservation_only=bool(case.get("sanitised")))


class Check(CheckBase):
    id = "C05"
    level = "exploration"
    title = "Left/right pairs merge into one stereo file; no sample is lost or duplicated"
    rule = ("all ordered k-tuples of sibling names (every ordering of every multiset) over a near-collision alphabet: AKAI "
            "volume, 14 names, k<=3 (quick) / k<=4 (thorough), plus all 4-tuples over the reduced 6-name alphabet and over {A-L, A -R, A -L, A-R}; pair stems covering every letter and digit; 3-tuples over {A, A., A L, A R, A. L, A. R} and all orders of the two dotted / undotted pairs; Roland "
            "performance, 13 names (incl. stems that differ only in the length of a blank run, lower-case 'l' / 'r' endings, which are not L/R forms), k<=2 (quick) / k<=3 (thorough); equal lengths (10 frames), and unequal lengths, differing sample "
            "rates, single-frame samples, samples of 2049 frames (one more than the transcoder block) and AKAI samples of 3 sectors on fragmented chains with backward links for k<=2 (quick) / "
            "all (thorough); AKAI header names that differ from the directory names (rotated among the siblings / 'DRUM L', 'DRUM R'), S1000- and S3000-type samples mixed in one volume, "
            "for k<=2 over 14 names and k=3 over 6; 2- and 3-tuples over 8 names that become an L/R form only when a trailing dot / blank is "
            "dropped (conservation only: nothing lost, nothing written twice); large directories: 201 AKAI siblings (70 Roland) with an L/R pair at every pair of adjacent positions "
            "and at far-apart positions. Oracle: every sample's position-coded PCM in exactly one channel of exactly one file; channel sum = "
            "sample count; unambiguous P+'L'/P+'R' pairs (P ending in blank/hyphen, exactly one of each) in one 2-channel file, "
            "L in channel 0, all frames when equal length, named after the stem when the stem is safe and unclaimed; others "
            "mono. non-trivial = tuple containing a name of the L/R form")
    assumptions = ["for ambiguous multisets (two candidates for one side) only conservation and L/R channel typing is required",
                   "'+' (sanitised to a blank) is kept out of the name alphabet"]

    def shards(self):
        cases = []
        kmax = 3 if self.quick else 4
        for k in range(1, kmax + 1):
            for t in itertools.product(AKAI_NAMES, repeat=k):
                cases.append({"fmt": "akai", "names": list(t), "lens": "eq"})
                if k <= 2 or not self.quick:
                    cases.append({"fmt": "akai", "names": list(t), "lens": "uneq"})
                    cases.append({"fmt": "akai", "names": list(t), "lens": "eq", "rates": "diff"})
                    cases.append({"fmt": "akai", "names": list(t), "lens": "one"})
                    cases.append({"fmt": "akai", "names": list(t), "lens": "block1"})
        for k in (1, 2, 3):
            for t in itertools.product(AKAI_NAMES if k < 3 else AKAI_N4, repeat=k):
                for hdr in ("rot", "lr", "flavours"):
                    cases.append({"fmt": "akai", "names": list(t), "lens": "eq", "hdr": hdr})
        # multi-sector halves on fragmented chains with backward links (a pair must come out whole, both halves complete)
        for k in (1, 2, 3):
            for t in itertools.product(AKAI_N4, repeat=k):
                cases.append({"fmt": "akai", "names": list(t), "lens": "frag"})
        # names that become an L/R form only after sanitising (trailing dot / blank dropped), every order, next to real forms
        san = ["A-L .", "A-R .", "A-L.", "A L .", "A-R", "A-L", "A .", "A"]
        for k in (2, 3):
            for t in itertools.product(san, repeat=k):
                cases.append({"fmt": "akai", "names": list(t), "lens": "eq", "sanitised": True})
        # stems that end in a dot next to the same stem without it (names "tidied" after their uniqueness was established)
        for t in itertools.product(["A", "A.", "A L", "A R", "A. L", "A. R"], repeat=3):
            cases.append({"fmt": "akai", "names": list(t), "lens": "eq"})
        for t in itertools.permutations(["A L", "A R", "A. L", "A. R"]):
            cases.append({"fmt": "akai", "names": list(t), "lens": "eq"})
            cases.append({"fmt": "akai", "names": list(t) + ["A"], "lens": "eq"})
        # every letter and digit once in a pair stem and in a mono name (a character the decoder does not know makes the entry vanish)
        for stem in ("ABCDEFGHI", "JKLMNOPQR", "STUVWXYZ", "0123456789", "FUZZ", "#+.-X"):
            cases.append({"fmt": "akai", "names": [stem[:9] + "-L", stem[:9] + "-R", stem[:12]], "lens": "eq"})
            cases.append({"fmt": "akai", "names": [stem[:9] + " R", stem[:12], stem[:9] + " L"], "lens": "eq"})
        # duplicated halves with different separators (the '(n)' given to a duplicate must not create a new pair)
        for t in itertools.product(["A-L", "A -R", "A -L", "A-R"], repeat=4):
            cases.append({"fmt": "akai", "names": list(t), "lens": "eq"})
        if self.quick:
            for t in itertools.product(AKAI_N4, repeat=4):
                cases.append({"fmt": "akai", "names": list(t), "lens": "eq"})
        rk = 2 if self.quick else 3
        for k in range(1, rk + 1):
            for t in itertools.product(ROLAND_NAMES, repeat=k):
                cases.append({"fmt": "roland", "names": list(t), "lens": "eq"})
                if k <= 2:
                    cases.append({"fmt": "roland", "names": list(t), "lens": "uneq"})
                    cases.append({"fmt": "roland", "names": list(t), "lens": "eq", "rates": "diff"})
                    cases.append({"fmt": "roland", "names": list(t), "lens": "block1"})
        ak = [c for c in cases if c["fmt"] == "akai"]
        ro = [c for c in cases if c["fmt"] == "roland"]
        # large directories: a pair at EVERY pair of adjacent positions of a 201-entry AKAI volume (Roland: 70 samples), and
        # pairs whose halves lie far apart (directory processed in pieces, pairing windows)
        big_a, big_r = [], []
        for k in range(200):
            big_a.append({"fmt": "akai", "big": [201, k, k + 1, bool(k % 2)], "lens": "eq"})
        for i, j in ((0, 200), (0, 64), (63, 128), (1, 100), (100, 1), (199, 3), (31, 32 + 64)):
            big_a.append({"fmt": "akai", "big": [201, i, j, False], "lens": "eq"})
        for k in range(0, 69, 1 if not self.quick else 4):
            big_r.append({"fmt": "roland", "big": [70, k, k + 1, bool(k % 2)], "lens": "eq"})
        big_r.append({"fmt": "roland", "big": [70, 0, 69, False], "lens": "eq"})
        return self.chunk(ak, 60) + self.chunk(ro, 6) + self.chunk(big_a, 6) + self.chunk(big_r, 2)

    def run_shard(self, shard, rep: Report):
        cases = [shard["replay_case"]] if "replay_case" in shard else shard["cases"]
        for case in cases:
            ok, klass, detail = run_case(case)
            nt = "big" in case or any(N.lr_prefix(n.rstrip(" ")) for n in case["names"])
            rep.case(case, ok=ok, klass=klass, nontrivial=nt, detail=detail, sig=f"{case['fmt']}:{klass}")
