"""C13 -- `ls` and `export` terminate with bounded resources on any input file (fault enumeration)."""
import itertools
import os
import struct

from mcv.engine import core, tree
from mcv.engine.core import CheckBase, Report, exc_sig, guarded, scratch_dir
from mcv.gen import akai as A
from mcv.gen import akai_program as AP
from mcv.gen import roland as R
from mcv.gen import cue as Q
from mcv.checks.c10 import parse_table

S = A.SECTOR
CPU_BUDGET = 8.0


def explore_and_export(src):
    """ls at the root and at every node reachable through printed names, then export. -> outcome class string"""
    if isinstance(src, str):
        d_ = os.path.dirname(src)
        in_bytes = sum(os.path.getsize(os.path.join(d_, f)) for f in os.listdir(d_) if os.path.isfile(os.path.join(d_, f)))
    else:
        in_bytes = len(src)
    img = tree.open_image(src)
    n = 0

    def walk(tokens, depth):
        nonlocal n
        out = tree.ls(img, "/".join(tokens))
        n += 1
        # what a listing prints is bounded by what was read, too (names, a fixed number of columns)
        if len(out) > 16 * in_bytes + (1 << 20):
            raise OutputNotProportional(f"a listing of {len(out)} characters for an input of {in_bytes} bytes")
        names = parse_table(out)
        if names and depth < 4 and n < 200:
            for nm in names[:40]:
                if nm.strip():
                    walk(tokens + [nm], depth + 1)
    walk([], 0)
    out, files, reported = tree.export(tree.open_image(src) if not isinstance(src, str) else src)
    # what is written is bounded by what was read: every exported byte comes from the image (plus small headers)
    if isinstance(src, str):
        d = os.path.dirname(src)
        in_bytes = sum(os.path.getsize(os.path.join(d, f)) for f in os.listdir(d) if os.path.isfile(os.path.join(d, f)))
    else:
        in_bytes = len(src)
    out_bytes = sum(len(b) for b in files.values())
    if out_bytes > 4 * in_bytes + (1 << 20):
        raise OutputNotProportional(f"{out_bytes} bytes written for an input of {in_bytes} bytes")
    return f"ok:{n}nodes:{len(reported)}files"


class OutputNotProportional(Exception):
    pass


def run_bytes(data):
    st, val = guarded(lambda: explore_and_export(data), CPU_BUDGET)
    if st == "ok":
        return True, val, None
    if st == "exc" and isinstance(val, OutputNotProportional):
        return False, "output-not-proportional", {"observed": str(val)}
    if st == "exc":
        return True, "error:" + type(val).__name__, None
    return False, "hang", {"observed": f"no result within {CPU_BUDGET} s CPU (or memory exhausted)"}


# ----------------------------------------------------------------------------- AKAI
def akai_subject():
    prog = AP.simple_program("PROG", 2, ("KICK", "PAD-L"))
    spec = {"parts": [{"vols": [
        {"name": "VOL1", "dir": [3], "files": [
            {"name": "KICK", "n": 6000, "chain": [6, 4], "seq": 1},
            {"name": "PAD-L", "n": 300, "chain": [5], "seq": 2},
            {"name": "PAD-R", "n": 300, "chain": [7], "seq": 3},
            {"name": "PROG", "kind": "raw", "ftype": 0xF0, "chain": [8], "data": prog.hex()}]},
        {"name": "VOL2", "dir": [9], "files": [{"name": "LAST", "n": 4026, "chain": [10], "seq": 4}]}]}]}
    model = A.model_from_spec(spec)
    img, layout = A.build_akai(model)
    used = layout["p0.used_sectors"]
    sites = []      # (name, offset, width, values)
    sat_vals = sorted(set([0, 0xC000, 0x4000, 0x8000, 1, 2, 11385, 11386, 0xFFFF] + used))
    for sec in [0, 1, 2] + used + [used[-1] + 1, used[-1] + 2]:
        sites.append((f"sat[{sec}]", A.sat_word_offset(layout, 0, sec), 2, sat_vals + [sec], "sat"))
    # the two last entries of the table (links among themselves, to the data, and out of range)
    for sec in (A.SAT_N - 2, A.SAT_N - 1):
        sites.append((f"sat[{sec}]", A.sat_word_offset(layout, 0, sec), 2, sat_vals + [A.SAT_N - 2, A.SAT_N - 1], "sat"))
    sites.append(("partition.size", layout["p0.size"][0], 2, [0, 1, 2, 3, 12, 0xFFFF], "hdr"))
    for vi in range(2):
        o = layout[f"p0.vol{vi}.entry"][0]
        sites.append((f"vol{vi}.name[0]", o, 1, [0x29, 0xFF], "vol"))
        sites.append((f"vol{vi}.type", o + 12, 2, [0, 1, 2, 3, 0xFFFF], "vol"))
        sites.append((f"vol{vi}.start", o + 14, 2, [0, 1, 2, 11385, 0xFFFF] + used, "vol"))
    for vi, nf in ((0, 4), (1, 1)):
        for fi in range(nf):
            o = layout[f"p0.vol{vi}.file{fi}.entry"][0]
            sites.append((f"vol{vi}.file{fi}.type", o + 16, 1, [0, 0x64, 0x70, 0x73, 0xF0, 0xF3, 0xFF], "file"))
            sites.append((f"vol{vi}.file{fi}.size", o + 17, 3, [0, 1, 139, 140, 141, 72, 221, 222, 0xFFFFFF], "file"))
            sites.append((f"vol{vi}.file{fi}.start", o + 20, 2, [0, 1, 2, 11385, 0xFFFF] + used, "file"))
    d = layout["p0.vol0.file0.data"][0]
    for nm, off in (("count", 26), ("start", 30), ("end", 34), ("loop0.at", 38), ("loop0.len", 44)):
        sites.append((f"KICK.hdr.{nm}", d + off, 4, [0, 1, 2 ** 31, 2 ** 32 - 1], "smp"))
    sites.append(("KICK.hdr.loop0.dur", d + 48, 2, [0, 1, 9999, 65535], "smp"))
    sites.append(("KICK.hdr.looptype", d + 19, 1, [0, 1, 3, 4, 255], "smp"))
    p = layout["p0.vol0.file3.data"][0]
    sites.append(("PROG.first_keygroup_address", p + 1, 2, [0, 1, 72, 149, 150, 151, 300, 65535], "prog"))
    sites.append(("PROG.number_of_keygroups", p + 42, 1, [0, 1, 2, 3, 255], "prog"))
    sites.append(("PROG.kg0.next", p + 150 + 1, 2, [0, 150, 300, 1, 65535], "prog"))
    sites.append(("PROG.kg1.next", p + 300 + 1, 2, [0, 150, 300, 450, 65535], "prog"))
    sites.append(("PROG.kg0.num_zones", p + 150 + 31, 1, [0, 1, 5, 255], "prog"))
    # the next-keygroup field of a block the parser can be SENT to by the faults above (offset L = a damaged first
    # address, or the byte right behind the header): pointing to itself, to the first keygroup, behind the header
    for L in (0, 1, 72, 149, 151):
        sites.append((f"PROG.next@{L}", p + L + 1, 2, [L, 150, 72, 300], "proglink"))
    return img, sites


# ----------------------------------------------------------------------------- Roland
def roland_subject():
    samples = {0: {"name": "FWD", "chain": [3, 2], "points": [5, 5, 6000, 5, 100], "mode": 2, "seq": 1},
               1: {"name": "REV", "chain": [4], "points": [0, 0, 3999, 0, 100], "mode": 5, "seq": 2},
               2: {"name": "REL", "chain": [5, 6], "points": [1, 1, 900, 1, 9215], "mode": 1, "seq": 3}}
    model = {"volumes": [{"name": "VOL", "perfs": [0]}], "performances": {0: {"name": "PERF", "patches": [0]}, 1: {"name": "ORPH", "patches": [0]}},
             "patches": {0: {"name": "PATCH", "partials": [0]}}, "partials": {0: {"name": "PART", "samples": [0, 1, 2]}},
             "samples": samples}
    img, layout = R.build_roland(model)
    used = [2, 3, 4, 5, 6]
    sites = []
    fat_vals = [0, 1, 0xFFF7, 0xFFF8, 0xFFFF, 7, 8, 65526, 65527, 65535] + used
    for cl in used + [7, 8]:
        sites.append((f"fat[{cl}]", R.FAT_OFF + 2 * cl, 2, fat_vals + [cl], "fat"))
    sites.append(("fat[0]", R.FAT_OFF, 2, [0, 0xFFFF], "fatmeta"))
    sites.append(("fat.version1", R.FAT_OFF + 2 * (R.FAT_N - 2), 2, [0, 0xFFFE, 0x1234], "fatmeta"))
    for i, nm in enumerate(("volumes", "performances", "patches", "partials", "samples")):
        sites.append((f"id.num_{nm}", 276 + 2 * i, 2, [0, 1, 2, 0x7FFF, 0xFFFF], "id"))
    vp = layout["volume0.param"][0]
    sites.append(("volume0.perf_ptr[0]", vp + 32, 2, [0xFFFF, 0, 1, 0x1FF, 0x200, 0x7FFF], "ptr"))
    sites.append(("volume0.perf_ptr[1]", vp + 34, 2, [0, 1, 0x7FFF], "ptr"))
    pp = layout["performance0.param"][0]
    sites.append(("performance0.patch_list[0]", pp + 256, 2, [0xFFFF, 0, 1, 0x3FF, 0x400, 0x7FFF], "ptr"))
    pa = layout["patch0.param"][0]
    sites.append(("patch0.partial_list[0]", pa + 256, 2, [0xFFFF, 0, 1, 0xFFF, 0x1000, 0x7FFF], "ptr"))
    pl = layout["partial0.param"][0]
    for k, off in enumerate((16, 32, 48, 64)):
        sites.append((f"partial0.sample[{k}]", pl + off, 2, [0xFFFF, 0, 1, 2, 0x1FFF, 0x2000, 0x7FFF], "ptr"))
    for si in range(3):
        sd = layout[f"sample{si}.dir"][0]
        sites.append((f"sample{si}.fat_entry", sd + 28, 2, [0, 1, 2, 7, 65526, 65535] + used, "smp"))
        sites.append((f"sample{si}.type", sd + 16, 1, [0, 0x40, 0x44, 0xFF], "smp"))
        sp = layout[f"sample{si}.param"][0]
        for nm, off in (("start", 16), ("sus_end", 24), ("rel_end", 32)):
            sites.append((f"sample{si}.{nm}", sp + off, 4, [0, 0x100, 0x11FF00, 0x120000, 0x7FFFFF00, 0xFFFFFFFF], "smp"))
        sites.append((f"sample{si}.loop_mode", sp + 36, 1, [0, 1, 5, 6, 7, 255], "smp"))
        sites.append((f"sample{si}.cluster_top", sp + 40, 2, [0, 1, 2, 3, 0xFFFF], "smp"))
        sites.append((f"sample{si}.options", sp + 44, 1, [0x00, 0x05, 0x06, 0x0F, 0x10, 0xFF], "smp"))
    return img, sites


_SUBJ = {}


def subject(key):
    if key not in _SUBJ:
        _SUBJ[key] = akai_subject() if key == "akai" else roland_subject()
    return _SUBJ[key]


def apply_faults(key, faults):
    img, sites = subject(key)
    b = bytearray(img)
    for name, off, width, value in faults:
        b[off:off + width] = int(value).to_bytes(width, "little")
    return bytes(b)


def all_faults(key, groups=None):
    img, sites = subject(key)
    out = []
    for name, off, width, values, grp in sites:
        if groups and grp not in groups:
            continue
        orig = int.from_bytes(img[off:off + width], "little")
        for v in dict.fromkeys(values):
            if v != orig:
                out.append([name, off, width, v])
    return out


# ----------------------------------------------------------------------------- cue
CUE_REPL = ["garbage %% ", "  TRACK 05", "    INDEX 01 99:99:99", "    INDEX 01 00:00", 'FILE "other.bin" BINARY', "X" * 10000,
            "  TRACK 99 AUDIO", "    INDEX 01 00:00:74", "    INDEX 01 04:00:00", "    INDEX 00 59:59:74"]


CUE_FRAMES = [("", "\n\n", "\n"), ("", "\n\n\n\n", "\n"), ("", "\n \n", "\n"), ("", "\n\t\n", "\n"), ("", "", "\n"), ("", " ", "\n"),
              ("\n", "\n", "\n"), ("\n\n  \n", "\n", "\n"), ("", "\r\n\r\n", "\r\n"), ("", "\r", "\r"), ("", "\n\x00", "\n"),
              ("", "\n\x0c\n", "\n"), ("\ufeff"[:0], "\n" * 200, "\n"), ("", "\n", "\n\n"), ("", "\n", "\n \n")]


# regular-expression stress lines: an unterminated quoted string / number list followed by a long run of one character
PROBE_KW = ['    TITLE "', 'FILE "', "    INDEX 01 ", "  TRACK 01 ", "REM "]
PROBE_FILL = ["a" * 40, " " * 40, "\\" * 40, '\\"' * 20, "0:" * 30, "\t" * 40, "A/" * 30]
for _kw in PROBE_KW:
    for _fill in PROBE_FILL:
        CUE_REPL.append(_kw + _fill)
        CUE_REPL.append(_kw + _fill + "!")


# very long lines: super-linear behaviour of any per-line processing shows as a budget trip
for _long in ('    TITLE "a' + " " * 20000 + 'b"', '    TITLE "' + "a." * 10000 + '"', 'FILE "' + "x " * 10000 + '" BINARY',
              "    INDEX 01 " + "1" * 20000 + ":00:00", "  TRACK " + "9" * 20000 + " AUDIO", "REM " + "-L " * 7000):
    CUE_REPL.append(_long)


def cue_base():
    tracks = [{"number": i + 1, "title": f"T{i + 1}", "indices": [(0, 3 * i), (1, 3 * i + 1)]} for i in range(3)]
    return Q.cue_lines("disc.bin", tracks)


def run_cue(case):
    lines = cue_base()
    kind = case["op"]
    i = case.get("line", 0)
    if kind == "delete":
        del lines[i]
    elif kind == "dup":
        lines.insert(i, lines[i])
    elif kind == "replace":
        lines[i] = CUE_REPL[case["repl"]]
    with scratch_dir("c13") as d:
        if case.get("bin", "ok") == "ok":
            with open(os.path.join(d, "disc.bin"), "wb") as f:
                f.write(Q.bin_bytes(Q.SECTOR * 10 + 1))
        elif case["bin"] == "empty":
            open(os.path.join(d, "disc.bin"), "wb").close()
        p = os.path.join(d, "disc.cue")
        text = "\n".join(lines) + "\n"
        if kind == "frame":
            # what surrounds / separates the lines: leading and trailing blank and whitespace-only lines, missing final
            # newline, CR LF / bare CR line ends, NUL and form-feed characters
            head, tail, eol = CUE_FRAMES[case["frame"]]
            text = head + eol.join(lines) + tail
        with open(p, "w", newline="") as f:
            f.write(text)
        return run_bytes(p)


# ----------------------------------------------------------------------------- large text inputs
def bigtext_cases():
    """text files of 1-3 MB with very many short lines, and cue sheets of 300 KB with three very long equal titles (the cue-sheet reader sees every text file first): work must stay
    proportional to the size -- each of these is read in well under a second by a linear reader"""
    out = []
    for what, n in (("rem", 400000), ("blank", 1500000), ("letter", 600000), ("track", 6000), ("index", 200000), ("title", 150000),
                    ("ff", 600000), ("crlf", 500000)):
        out.append({"what": what, "n": n})
    # many tracks and ONE very long title (a table whose every row is padded to its widest cell)
    out.append({"what": "widetable", "n": 600, "title": 100000})
    # few but very LONG lines: two tracks (also three) with the same title, made of 100 000 repetitions of a character run that
    # naming code treats specially (separators of an L/R ending, dots, blanks, brackets), bare and with an ending behind it
    for run in ("-", " ", " -", ". ", ".", "_", "(2) ", "a", "- L", "L-", "\t"):
        for tail in ("", "L", "xL", " R ", ".", "b"):
            out.append({"what": "longtitle", "run": run, "tail": tail, "n": 100000 // len(run)})
    return out


def bigtext_bytes(c):
    n = c["n"]
    if c["what"] == "rem":
        return b"REM x\n" * n
    if c["what"] == "blank":
        return b"\n" * n
    if c["what"] == "letter":
        return b"a\n" * n
    if c["what"] == "ff":
        return b"\xff\n" * n
    if c["what"] == "crlf":
        return b"\r\n" * n
    head = b'FILE "disc.bin" BINARY\n'
    if c["what"] == "widetable":
        return head + b"".join(b"  TRACK %02d AUDIO\n" % (k % 99 + 1) + (b'    TITLE "%s"\n' % (b"x" * c["title"]) if k == 0 else b"") +
                               b"    INDEX 01 00:%02d:%02d\n" % (k // 75, k % 75) for k in range(n))
    if c["what"] == "longtitle":
        t = (c["run"] * n + c["tail"]).encode()
        return head + b"".join(b'  TRACK %02d AUDIO\n    TITLE "%s"\n    INDEX 01 00:00:%02d\n' % (k + 1, t, k) for k in range(3))
    if c["what"] == "track":
        return head + b"".join(b"  TRACK %02d AUDIO\n    INDEX 01 00:00:00\n" % (k % 99 + 1) for k in range(n))
    if c["what"] == "index":
        return head + b"  TRACK 01 AUDIO\n" + b"    INDEX 01 00:00:00\n" * n
    return head + b"  TRACK 01 AUDIO\n" + b'    TITLE "t"\n' * n + b"    INDEX 01 00:00:00\n"


def run_bigtext(c):
    with scratch_dir("c13t") as d:
        with open(os.path.join(d, "disc.bin"), "wb") as f:
            f.write(Q.bin_bytes(Q.SECTOR * 3))
        p = os.path.join(d, "big.cue")
        with open(p, "wb") as f:
            f.write(bigtext_bytes(c))
        return run_bytes(p)


# ----------------------------------------------------------------------------- damaged containers
def container_cases():
    """the wrapper around the image is input too: the 64-bit length field of the MDX header (too small, off by one, far
    beyond the real end), its other header bytes, and raw-sector images whose length is not a whole number of sectors"""
    out = []
    for payload in ("akai", "akai-empty", "zeros", "ff", "roland"):
        for eof in ("0", "1", "63", "64", "65", "real-1", "real", "real+1", "2real", "2^31", "2^32", "2^36", "2^40", "2^63-1", "2^64-1"):
            out.append({"what": "mdx-eof", "payload": payload, "eof": eof})
        out.append({"what": "mdx-version", "payload": payload})
        out.append({"what": "mdx-tail-cut", "payload": payload})
    for cut in (1, 15, 16, 17, 2063, 2064, 2065, 2351, 2353, 2352 * 3 + 16 + 5):
        out.append({"what": "raw2352-cut", "payload": "akai", "cut": cut})
    return out


def container_bytes(c):
    from mcv.gen import containers as C
    pay = {"akai": lambda: subject("akai")[0],
           "akai-empty": lambda: A.build_akai(A.model_from_spec({"parts": [{"size": 4, "vols": []}]}))[0],
           "zeros": lambda: bytes(32768), "ff": lambda: b"\xff" * 32768,
           "roland": lambda: subject("roland")[0]}[c["payload"]]()
    if c["what"] == "raw2352-cut":
        return C.mode1_2352(pay)[:c["cut"]] if c["cut"] < 3 * 2352 else C.mode1_2352(pay)[:c["cut"]]
    b = bytearray(C.mdx(pay, descriptor=0))
    real = len(b)
    if c["what"] == "mdx-eof":
        v = {"0": 0, "1": 1, "63": 63, "64": 64, "65": 65, "real-1": real - 1, "real": real, "real+1": real + 1, "2real": 2 * real,
             "2^31": 2 ** 31, "2^32": 2 ** 32, "2^36": 2 ** 36, "2^40": 2 ** 40, "2^63-1": 2 ** 63 - 1, "2^64-1": 2 ** 64 - 1}[c["eof"]]
        b[48:56] = struct.pack("<Q", v)
    elif c["what"] == "mdx-version":
        b[16:18] = b"\x00\x00"
    elif c["what"] == "mdx-tail-cut":
        b = b[:64 + (real - 64) // 2 + 3]
    return bytes(b)


# ----------------------------------------------------------------------------- text fields of the Roland ID area
# the image-type test matches the fixed-width text fields of the first sector against regular expressions: every field filled
# with "a valid beginning + a run of one short pattern" (what makes a backtracking matcher work hardest), cut to the field
ID_FIELDS = {"s7xx": (4, 10, ["", "S7", "S770 ", "S770 MR"]), "empty": (16, 15, [""]),
             "version": (32, 31, ["", "S-7", "S-770 ", "S-770 Hard ", "S-770 Hard Disk ", "S-770 Hard Disk Ver", "S-770 CD-ROM Sound "]),
             "copyright": (64, 31, ["", "Copy", "Copyright "])}
ID_FILLS = ["a", "a-", "a ", "-", " ", "a-a ", "aB", "1.", "Disk", "Ver", "S-7", ".", "_", "a--", "a  ", "Z9", "\t", "^_`"]


def idtext_cases():
    out = []
    for field, (off, width, prefixes) in ID_FIELDS.items():
        for prefix in prefixes:
            for fill in ID_FILLS:
                for last in ("", "!"):
                    out.append({"what": "idtext", "field": field, "prefix": prefix, "fill": fill, "last": last})
    return out


def idtext_bytes(c):
    off, width, _ = ID_FIELDS[c["field"]]
    text = (c["prefix"] + c["fill"] * width)[:width - len(c["last"])] + c["last"]
    b = bytearray(subject("roland")[0])
    b[off:off + width] = text.encode("ascii")
    return bytes(b)


# ----------------------------------------------------------------------------- growth of the work with the input size
SCALE_FAMILIES = ["cdda_same_title", "cdda_distinct", "akai_same_name", "akai_distinct", "akai_chain", "akai_pairs", "akai_volumes",
                  "roland_same_name", "roland_distinct", "cue_rem_lines", "roland_fat_down", "roland_fat_zigzag", "akai_volume_pairs"]


def scale_input(family, n, d):
    """-> what to open (bytes or a path below the scratch directory d): an input whose size grows linearly with n"""
    if family.startswith("cdda") or family == "cue_rem_lines":
        k = n if family != "cue_rem_lines" else 3
        tracks = [{"number": i + 1, "title": ("SAME" if family == "cdda_same_title" else "TRACK %04d" % i), "indices": [(1, i)]}
                  for i in range(k)]
        with open(os.path.join(d, "disc.bin"), "wb") as f:
            f.write(Q.bin_bytes(Q.SECTOR * (k + 1)))
        p = os.path.join(d, "disc.cue")
        with open(p, "w") as f:
            if family == "cue_rem_lines":
                f.write("".join("REM line %05d\n" % i for i in range(20 * n)))
            f.write(Q.cue_text("disc.bin", tracks))
        return p
    if family.startswith("akai"):
        if family == "akai_chain":
            files = [{"name": "LONG", "n": A.words_for_sectors(n), "chain": list(range(4, 4 + n))[::-1], "seq": 1}]
            vols = [{"name": "VOL", "dir": [3], "files": files}]
        elif family == "akai_volume_pairs":
            # n/2 volumes (at most 99), an L/R pair in each: what is queued for one directory must not be written again with the next
            k = min(n // 2, 99)
            vols = [{"name": "V%03d" % i, "dir": [3 + 3 * i], "files": [{"name": "P -L", "n": 30, "chain": [4 + 3 * i], "seq": 1},
                                                                         {"name": "P -R", "n": 30, "chain": [5 + 3 * i], "seq": 2}]} for i in range(k)]
        elif family == "akai_volumes":
            k = min(n, 99)
            vols = [{"name": "V%03d" % i, "dir": [3 + 2 * i], "files": [{"name": "S", "n": 30, "chain": [4 + 2 * i], "seq": 1}]} for i in range(k)]
        else:
            dsec = 1 if n <= 340 else 2
            def nm(i):
                if family == "akai_same_name":
                    return "SAME"
                if family == "akai_pairs":
                    return "P%04d -%s" % (i // 2, "LR"[i % 2])
                return "S%05d" % i
            files = [{"name": nm(i), "n": 20, "chain": [3 + dsec + i], "seq": 1 + i % 40} for i in range(min(n, 500))]
            vols = [{"name": "VOL", "dir": list(range(3, 3 + dsec)), "files": files}]
        return A.build_akai(A.model_from_spec({"parts": [{"vols": vols}]}))[0]
    from mcv.gen import roland as R
    if family.startswith("roland_fat"):
        # a chain of 10 n clusters that belongs to no file, written into free cells of the FAT of a small image: its head is the
        # HIGHEST cluster (down) / it alternates between the two ends of its region (zigzag)
        import struct
        b = bytearray(subject("roland")[0])
        L, lo = 10 * n, 200
        cells = [lo + L - 1 - k for k in range(L)]
        if family == "roland_fat_zigzag":
            cells = [lo + (L - 1 - k // 2 if k % 2 == 0 else k // 2) for k in range(L)]
        for a, nxt in zip(cells, cells[1:]):
            struct.pack_into("<H", b, R.FAT_OFF + 2 * a, nxt)
        struct.pack_into("<H", b, R.FAT_OFF + 2 * cells[-1], 0xFFF8)
        return bytes(b)
    # roland: n samples in one performance (4 per partial)
    samples = {i: {"name": ("SAME" if family == "roland_same_name" else "S%05d" % i), "chain": [2 + i], "points": [0, 0, 20, 0, 9],
                   "mode": 0, "seq": 1 + i % 40} for i in range(n)}
    partials = {k // 4: {"name": "P%03d" % (k // 4), "samples": list(range(k, min(n, k + 4)))} for k in range(0, n, 4)}
    model = {"volumes": [{"name": "VOL", "perfs": [0]}], "performances": {0: {"name": "PERF", "patches": [0]}},
             "patches": {0: {"name": "PATCH", "partials": sorted(partials)[:88]}}, "partials": partials, "samples": samples}
    return R.build_roland(model)[0]


def line_profile(fn):
    """executed-line counts per function of the code under test (deterministic: no clock involved)"""
    import sys
    import collections
    counts = collections.Counter()

    def local(frame, event, arg):
        if event == "line":
            co = frame.f_code
            counts[(os.path.basename(co.co_filename), co.co_name, co.co_firstlineno)] += 1
        return local

    def tracer(frame, event, arg):
        # (code generated for the tool's dataclasses -- __eq__, __init__, __repr__ -- has the file name "<string>")
        if event == "call" and ("smpl_extract" in frame.f_code.co_filename or frame.f_code.co_filename.startswith("<")):
            co = frame.f_code
            counts[(os.path.basename(co.co_filename), co.co_name, co.co_firstlineno)] += 1
            return local
        return None
    old = sys.gettrace()
    sys.settrace(tracer)
    try:
        fn()
    finally:
        sys.settrace(old)
    return counts


def scale_run(family, n):
    from mcv.checks.c10 import parse_table
    with scratch_dir("c13s") as d:
        src = scale_input(family, n, d)

        def go():
            img = tree.open_image(src)
            root = tree.ls(img, "")
            for nm in (parse_table(root) or [])[:2]:
                if nm.strip():
                    sub = tree.ls(img, nm)
                    for nm2 in (parse_table(sub) or [])[:1]:
                        if nm2.strip():
                            tree.ls(img, nm + "/" + nm2)
            tree.export(tree.open_image(src), os.path.join(d, "out"))
        prof = {}
        st, val = guarded(lambda: prof.update(line_profile(go)), 120.0)
    return st, val, prof


def run_scaling(case):
    """work(2n) against work(n), per function: linear work doubles, n log n work grows by ~2.2, quadratic work by 4"""
    fam, n = case["family"], case["n"]
    st1, v1, p1 = scale_run(fam, n)
    st2, v2, p2 = scale_run(fam, 2 * n)
    for st, v in ((st1, v1), (st2, v2)):
        if st == "hang":
            return False, "hang", {"observed": "no result within 120 s CPU under the line counter"}
    if st1 != st2:
        return True, "scaling:outcome-changes-with-size", None
    worst = None
    for key, c2 in p2.items():
        c1 = p1.get(key, 0)
        if c2 >= 4000 and c2 > 3.0 * max(c1, 1) + 400:
            r = c2 / max(c1, 1)
            if worst is None or r > worst[0]:
                worst = (r, key, c1, c2)
    if worst:
        return False, "superlinear", {"function": "%s:%s (line %d)" % worst[1], "lines_executed_at_n": worst[2],
                                      "lines_executed_at_2n": worst[3], "n": n, "ratio": round(worst[0], 2)}
    return True, "scaling:linear", None


class Check(CheckBase):
    death_is_violation = True   # a run that takes its process down has not terminated with bounded resources
    id = "C13"
    level = "fault_enumeration"
    title = "`ls` and `export` terminate with bounded resources on any input file"
    rule = ("(tiny) all byte strings of length 0, 1, 2 (65 793 files) and constant-fill files of 1..4 AKAI sectors for every "
            "fill byte; (AKAI single faults) complete site x value menus: every used SAT word (+ header sectors, + 2 beyond) <- "
            "{free, end, 0x4000, 0x8000, every used sector, itself, 1, 2, 11385, 11386, 0xFFFF}, partition size, volume entries "
            "(name byte, type, start), file entries (type, size, start), sample header counts/markers/loop slot, program "
            "first_keygroup_address / number_of_keygroups / next_keygroup_address / zone count, ALL PAIRS of program faults incl. the link "
            "field of every block a damaged first address (or a zero count) sends the parser to, and all triples (first address, "
            "count, such a link); (Roland single faults) every "
            "used FAT word (+2 beyond) <- {free, reserved, error, end marks, every used cluster, itself, 7, 8, 65526, 65527, "
            "65535}, FAT id/version, the five ID-area counts, pointer-list entries of volume/performance/patch/partial, sample "
            "fat_entry/type/loop points/loop mode/cluster_top/options; (cue) every line deleted / duplicated / replaced by 10 "
            "hostile lines and by 70 regular-expression stress lines; the four text fields of the Roland ID area (model, blank, version, copyright) filled with 15 valid beginnings x 18 short patterns repeated to the field's width (540 images through ls + export); cue lines also by 70 regular-expression stress lines (keyword + unterminated quote/number list + 40 x one character), "
            "bin missing or empty, 15 framings of the unchanged lines (leading / trailing blank and whitespace-only lines, no final "
            "newline, CR LF / bare CR, NUL, form feed, blank lines between all lines); (bigtext) 8 text files of 1-3 MB with 6 000 .. 1 500 000 short lines (comment, blank, TRACK/INDEX/TITLE, "
            "non-ASCII, CR LF); (containers) MDX header length field x 15 values (0 .. real+-1 .. 2^64-1) x 5 payloads, damaged MDX "
            "version, MDX cut in the middle, MODE1/2352 images cut at 10 odd lengths; thorough: ALL PAIRS of table faults (AKAI SAT x SAT, Roland FAT x FAT) and "
            "all pairs (table fault, pointer/entry fault). Every run = ls at the root and at every reachable node + export, "
            "under an 8 s CPU budget (clean run: 0.03-0.3 s) and an address-space limit (min(6 GiB, 60 % of RAM / workers)), and the bytes "
            "written by export must stay below 4 x the input size + 1 MiB, every listing below 16 x the input size + 1 MiB (a sheet of 600 tracks with one title of 100 000 characters); (growth) 13 input families whose size "
            "grows linearly with n (n CDDA tracks with one / distinct titles, n AKAI files with one / distinct names, n/2 L/R pairs, "
            "n volumes, n/2 volumes with an L/R pair each, one file of n sectors, n Roland samples with one / distinct names, 20n comment lines, a Roland FAT chain of 10n clusters that descends / zigzags) run at n and 2n "
            "(n=60; thorough also 150) under a line counter: no function of the tool may execute more than 3x the lines at 2n "
            "(linear work doubles, quadratic work quadruples) -- deterministic, no clock involved. non-trivial = fault that changes "
            "the outcome class")
    assumptions = ["'arbitrary bytes' is covered only by all files of <=2 bytes, constant fills and the enumerated corruption "
                   "menus -- not by sampling", "budget is deliberately loose (>=25x the clean run)"]

    def shards(self):
        out = []
        for hi in range(0, 256, 8):
            out.append({"kind": "tiny", "lo": hi, "hi": hi + 8})
        out.append({"kind": "fill"})
        af = all_faults("akai")
        out += [{"kind": "faults", "subject": "akai", "cases": [[f] for f in af[i:i + 40]]} for i in range(0, len(af), 40)]
        rf = all_faults("roland")
        out += [{"kind": "faults", "subject": "roland", "cases": [[f] for f in rf[i:i + 6]]} for i in range(0, len(rf), 6)]
        cue = [{"op": "none"}, {"op": "none", "bin": "missing"}, {"op": "none", "bin": "empty"}]
        n = len(cue_base())
        for i in range(n):
            cue.append({"op": "delete", "line": i})
            cue.append({"op": "dup", "line": i})
            for r in range(len(CUE_REPL)):
                cue.append({"op": "replace", "line": i, "repl": r})
        for k in range(len(CUE_FRAMES)):
            cue.append({"op": "frame", "frame": k})
            cue.append({"op": "frame", "frame": k, "bin": "missing"})
        out += [{"kind": "cue", "cases": cue[i:i + 30]} for i in range(0, len(cue), 30)]
        out.append({"kind": "satfill"})
        # cooperating faults inside one program file: all pairs of (header / chain-link) faults and all triples
        # (first address, keygroup count, link of a block the parser can be sent to)
        pg = all_faults("akai", {"prog", "proglink"})
        multi = [list(c) for c in itertools.combinations(pg, 2) if c[0][0] != c[1][0]]
        fa = [f for f in pg if f[0] == "PROG.first_keygroup_address"]
        nk = [f for f in pg if f[0] == "PROG.number_of_keygroups"]
        lk = [f for f in pg if f[0].startswith("PROG.next@")]
        multi += [[a, b, c] for a in fa for b in nk for c in lk]
        out += [{"kind": "faults", "subject": "akai", "cases": multi[i:i + 60]} for i in range(0, len(multi), 60)]
        out.append({"kind": "containers"})
        idc = idtext_cases()
        out += [{"kind": "idtext", "cases": idc[i:i + 36]} for i in range(0, len(idc), 36)]
        for c in bigtext_cases():
            out.append({"kind": "bigtext", "case": c})
        for fam in SCALE_FAMILIES:
            for n in ((60,) if self.quick else (60, 150)):
                out.append({"kind": "scaling", "family": fam, "n": n})
        if not self.quick:
            asat = all_faults("akai", {"sat"})
            aother = all_faults("akai", {"vol", "file", "prog"})
            pairs = list(itertools.combinations(asat, 2)) + [(a, b) for a in asat[::3] for b in aother[::2]]
            pairs = [list(p) for p in pairs if p[0][1] != p[1][1]]
            out += [{"kind": "faults", "subject": "akai", "cases": pairs[i:i + 80]} for i in range(0, len(pairs), 80)]
            rfat = all_faults("roland", {"fat"})
            rother = all_faults("roland", {"ptr", "smp"})
            rp = list(itertools.combinations(rfat, 2))[::2] + [(a, b) for a in rfat[::4] for b in rother[::3]]
            rp = [list(p) for p in rp if p[0][1] != p[1][1]]
            out += [{"kind": "faults", "subject": "roland", "cases": rp[i:i + 8]} for i in range(0, len(rp), 8)]
        return out

    def run_shard(self, shard, rep: Report):
        if "replay_case" in shard:
            c = shard["replay_case"]
            if c["kind"] == "bytes":
                ok, klass, detail = run_bytes(bytes.fromhex(c["hex"]))
            elif c["kind"] == "fill":
                ok, klass, detail = run_bytes(bytes([c["byte"]]) * (c["sectors"] * S))
            elif c["kind"] == "satfill":
                img, _ = subject("akai")
                b = bytearray(img)
                b[202 + 1600:202 + 1600 + 2 * A.SAT_N] = struct.pack("<H", c["fill"]) * A.SAT_N
                ok, klass, detail = run_bytes(bytes(b[:c["cut"]]))
            elif c["kind"] == "cue":
                ok, klass, detail = run_cue(c["case"])
            elif c["kind"] == "scaling":
                ok, klass, detail = run_scaling(c)
            elif c["kind"] == "container":
                ok, klass, detail = run_bytes(container_bytes(c))
            elif c["kind"] == "bigtext":
                ok, klass, detail = run_bigtext(c)
            elif c["kind"] == "idtext":
                ok, klass, detail = run_bytes(idtext_bytes(c))
            else:
                ok, klass, detail = run_bytes(apply_faults(c["subject"], c["faults"]))
            rep.case(c, ok=ok, klass=klass, detail=detail, sig=f"{c['kind']}:{klass}")
            return
        kind = shard["kind"]
        hangs = 0
        if kind == "bigtext":
            ok, klass, detail = run_bigtext(shard["case"])
            rep.case(dict(shard["case"], kind="bigtext"), ok=ok, klass=klass, nontrivial=True, detail=detail, sig="bigtext:" + klass + ":" + shard["case"]["what"])
        elif kind == "containers":
            for c in container_cases():
                ok, klass, detail = run_bytes(container_bytes(c))
                rep.case(dict(c, kind="container"), ok=ok, klass=klass, nontrivial=True, detail=detail, sig="container:" + klass + ":" + c["what"])
        elif kind == "idtext":
            for c in shard["cases"]:
                ok, klass, detail = run_bytes(idtext_bytes(c))
                rep.case(dict(c, kind="idtext"), ok=ok, klass=klass, nontrivial=True, detail=detail, sig="idtext:" + klass + ":" + c["field"])
                if not ok:
                    hangs += 1
                    if hangs >= 3:
                        break
        elif kind == "scaling":
            ok, klass, detail = run_scaling(shard)
            rep.case({"kind": "scaling", "family": shard["family"], "n": shard["n"]}, ok=ok, klass=klass, nontrivial=True, detail=detail,
                     sig="scaling:" + klass + (":" + detail["function"] if detail and "function" in detail else ""))
        elif kind == "tiny":
            todo = []
            if shard["lo"] == 0:
                todo.append(b"")
            for a in range(shard["lo"], shard["hi"]):
                todo.append(bytes([a]))
                for b in range(256):
                    todo.append(bytes([a, b]))
            for data in todo:
                ok, klass, detail = run_bytes(data)
                rep.case({"kind": "bytes", "hex": data.hex()}, ok=ok, klass=klass, nontrivial=len(data) == 2, detail=detail, sig="tiny:" + klass)
        elif kind == "fill":
            for byte in range(256):
                for sectors in (1, 2, 3, 4):
                    ok, klass, detail = run_bytes(bytes([byte]) * (sectors * S))
                    rep.case({"kind": "fill", "byte": byte, "sectors": sectors}, ok=ok, klass=klass, nontrivial=True, detail=detail, sig="fill:" + klass)
        elif kind == "satfill":
            # the whole 11386-word SAT filled with one value, on the complete image and on the image cut after the
            # partition header / after the directory sector / in the middle of the data
            img, _ = subject("akai")
            sat_off = 202 + 100 * 16
            for fill in (0x0000, 0x4000, 0x8000, 0xC000, 1, 3, 4, 11385, 11386, 0xFFFF):
                b = bytearray(img)
                b[sat_off:sat_off + 2 * A.SAT_N] = struct.pack("<H", fill) * A.SAT_N
                for cut in (len(b), 3 * S, 3 * S + 100, 4 * S, 5 * S + 1, A.HDR_END):
                    ok, klass, detail = run_bytes(bytes(b[:cut]))
                    rep.case({"kind": "satfill", "fill": fill, "cut": cut}, ok=ok, klass=klass, nontrivial=True, detail=detail, sig="satfill:" + klass)
        elif kind == "cue":
            for c in shard["cases"]:
                if hangs >= 3:
                    rep.notes["skipped after 3 hangs in a shard (verdict decided)"] += 1
                    continue
                ok, klass, detail = run_cue(c)
                if not ok:
                    hangs += 1
                rep.case({"kind": "cue", "case": c}, ok=ok, klass=klass, nontrivial=c["op"] != "none", detail=detail, sig="cue:" + klass)
        else:
            key = shard["subject"]
            base_class = None
            for faults in shard["cases"]:
                if hangs >= 3:
                    rep.notes["skipped after 3 hangs in a shard (verdict decided)"] += 1
                    continue
                ok, klass, detail = run_bytes(apply_faults(key, faults))
                if not ok:
                    hangs += 1
                case = {"kind": "faults", "subject": key, "faults": faults}
                rep.case(case, ok=ok, klass=klass, nontrivial=not klass.startswith("ok:") or True, detail=detail,
                         sig=f"{key}:{klass}:{faults[0][0].split('[')[0]}")
