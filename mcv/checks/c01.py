"""C01 -- AKAI export is byte-exact for every sector allocation and file length.

Each case is a compact spec -> independent writer -> image bytes -> the real
determine_image_type / ls / export -> files on disk compared with the expectation computed
from the logical model.
"""
import itertools

from mcv.engine import core, tree
from mcv.engine.core import CheckBase, Report, exc_sig
from mcv.gen import akai as A

SEC_WORDS_FILL = [(k * A.SECTOR - 140) // 2 for k in (1, 2, 3)]   # 4026, 8122, 12218: fill last sector


def chain_for(n_words, order, first=4):
    m = A.needed_sectors(140 + 2 * n_words)
    base = list(range(first, first + m))
    if order == "desc":
        base = base[::-1]
    elif order == "rot" and m > 1:
        base = base[1:] + base[:1]
    elif order == "gap":
        base = [first + 2 * i for i in range(m)]
    return base


def one_file_spec(n, start, end, order="asc", rate=44100, sid=3, ftype=0xF3, voltype=3, dirmode="linked",
                  name="SMP", hdr=None):
    f = {"name": name, "n": n, "start": start, "end": end, "rate": rate, "sid": sid, "ftype": ftype,
         "chain": chain_for(n, order), "seq": 1}
    if hdr:
        f["hdr"] = hdr
    return {"parts": [{"vols": [{"name": "VOL", "type": voltype, "dirmode": dirmode, "dir": [3], "files": [f]}]}]}


def sweep_alloc(quick):
    shapes = [(1, 1), (2, 1), (1, 2), (2, 2), (3, 1)]
    if not quick:
        shapes += [(3, 2), (1, 3)]
    for m1, m2 in shapes:
        slots = 1 + m1 + m2
        pool = list(range(3, 3 + slots + 1))
        for assign in itertools.permutations(pool, slots):
            d, c1, c2 = [assign[0]], list(assign[1:1 + m1]), list(assign[1 + m1:])
            # (the pool ends with the LAST sector of the partition: size = 3 + slots + 1)
            yield {"sweep": "alloc", "spec": {"parts": [{"size": 3 + slots + 1, "vols": [{"name": "VOL", "dir": d, "files": [
                {"name": "ONE", "n": A.words_for_sectors(m1), "chain": c1, "seq": 1},
                {"name": "TWO", "n": A.words_for_sectors(m2), "chain": c2, "seq": 2, "rate": 22050}]}]}]}}
    if not quick:
        # directory of two sectors (linked), one file of one sector
        pool = list(range(3, 3 + 4))
        for assign in itertools.permutations(pool, 3):
            yield {"sweep": "alloc", "spec": {"parts": [{"size": 9, "vols": [{"name": "VOL", "dir": list(assign[:2]), "files": [
                {"name": "ONE", "n": 50, "chain": [assign[2]], "seq": 1}]}]}]}}


def sweep_length(quick):
    # sector-filling lengths (4026, 8122, 12218) +-1, and lengths around the transcoder's 2048-word block
    ns = [0, 1, 2, 2047, 2048, 2049, 4025, 4026, 4027, 4095, 4096, 4097, 6144, 6145, 8121, 8122, 8123, 12218]
    for n in ns:
        ses = {(0, n), (min(1, n), n), (0, max(n - 1, 0)), (min(1, n), max(n - 1, min(1, n))), (n, n), (0, 0)}
        if n >= 8:
            ses |= {(2, n - 1), (5, n - 3), (n // 2, n // 2 + 1), (n // 3, n - 2)}
        if n >= 400:
            ses |= {(100, n - 100), (200, 300)}
        for (s, e) in sorted(ses):
            for order in ("asc", "desc", "rot"):
                if A.needed_sectors(140 + 2 * n) == 1 and order != "asc":
                    continue
                yield {"sweep": "length", "spec": one_file_spec(n, s, e, order)}


def sweep_slack(quick):
    """chains that are longer than the file needs (allocated but unused tail sectors), markers inside the data"""
    for n, extra in ((50, 1), (4026, 1), (4027, 2), (8122, 1)):
        for order in ("asc", "desc", "rot"):
            m = A.needed_sectors(140 + 2 * n) + extra
            base = list(range(4, 4 + m))
            ch = base[::-1] if order == "desc" else (base[1:] + base[:1] if order == "rot" else base)
            for (s, e) in ((0, n), (1, n - 1)):
                spec = one_file_spec(n, s, e)
                spec["parts"][0]["vols"][0]["files"][0]["chain"] = ch
                yield {"sweep": "slack", "spec": spec}


def sweep_sizes(quick):
    """every partition size in a consecutive range (free sectors after the data), one and two partitions"""
    for size in range(6, 140 if quick else 400):
        spec = one_file_spec(300, 0, 300, "asc")
        spec["parts"][0]["size"] = size
        if size % 3 == 0:
            spec["parts"].append({"size": 6 + size % 7, "vols": [{"name": "VOLB", "dir": [3], "files": [
                {"name": "SECOND", "n": 200, "chain": [4], "seq": 2, "rate": 22050}]}]})
        yield {"sweep": "sizes", "spec": spec}
        # the same with the file (and, alternately, the directory) in the highest sector of the partition
        spec2 = one_file_spec(300, 0, 300, "asc")
        spec2["parts"][0]["size"] = size
        v = spec2["parts"][0]["vols"][0]
        if size % 2:
            v["files"][0]["chain"] = [size - 1]
        else:
            v["dir"], v["files"][0]["chain"] = [size - 1], [3]
        yield {"sweep": "sizes", "spec": spec2}


def sweep_header(quick):
    for rate in (0, 1, 22050, 44100, 48000, 65535):
        for sid in (1, 3):
            for ftype in (0x73, 0xF3):
                for vt in (1, 3):
                    yield {"sweep": "header", "spec": one_file_spec(300, 0, 300, rate=rate, sid=sid, ftype=ftype, voltype=vt)}


NONSAMPLE = [("DRUMS", 0x64), ("QLIST", 0x71), ("EFFECTS", 0x78)]


def structure_spec(nparts, nvols, nfiles, voltype=3, dirmode="linked", pair=False, siblings=False, hdr_sat=A.RES,
                   trailing=0):
    parts = []
    seq = 0
    for p in range(nparts):
        vols = []
        sec = 3
        for v in range(nvols):
            d = [sec]
            sec += 1
            if dirmode == "reserved":
                sec += 1   # a non-reserved word must follow the run
            files = []
            for k in range(nfiles):
                seq += 1
                n = [60, 4200, 130, 9000][(k + v + p) % 4] if not pair else 500
                m = A.needed_sectors(140 + 2 * n)
                ch = list(range(sec, sec + m))
                if m > 1 and (k + p) % 2:
                    ch = ch[::-1]
                sec += m
                name = f"F{p}{v}{k}"
                files.append({"name": name, "n": n, "chain": ch, "seq": seq, "rate": [44100, 22050, 32000][k % 3]})
            pairs = []
            if pair and nfiles >= 2:
                files[0]["name"], files[1]["name"] = "PAD-R", "PAD-L"
                files[0]["rate"] = files[1]["rate"] = 44100
                pairs = [[1, 0, "PAD"]]
            if siblings:
                for nm, ft in NONSAMPLE:
                    files.append({"name": nm, "kind": "raw", "ftype": ft, "chain": [sec], "raw_len": 200})
                    sec += 1
            vols.append({"name": f"VOL{p}{v}", "type": voltype, "dirmode": dirmode, "dir": d, "files": files, "pairs": pairs})
        parts.append({"size": sec + 1, "hdr_sat": hdr_sat, "vols": vols})
    return {"parts": parts, "trailing": trailing}


def sweep_structure(quick):
    for nparts in (1, 2, 3):
        for nvols in (0, 1, 2):
            for nfiles in (0, 1, 2, 3):
                if nvols == 0 and nfiles:
                    continue
                for voltype in (1, 3):
                    for dirmode in ("linked", "reserved"):
                        yield {"sweep": "structure", "spec": structure_spec(nparts, nvols, nfiles, voltype, dirmode)}
    for nparts in (1, 2):
        for dirmode in ("linked", "reserved"):
            yield {"sweep": "structure", "spec": structure_spec(nparts, 2, 3, 3, dirmode, pair=True)}
            yield {"sweep": "structure", "spec": structure_spec(nparts, 1, 2, 3, dirmode, siblings=True)}
            yield {"sweep": "structure", "spec": structure_spec(nparts, 2, 2, 1, dirmode, hdr_sat=0)}
            yield {"sweep": "structure", "spec": structure_spec(nparts, 1, 2, 3, dirmode, trailing=700)}
            yield {"sweep": "structure", "spec": structure_spec(nparts, 1, 2, 3, dirmode, pair=True, siblings=True, trailing=8192)}


def sweep_pairs(quick):
    """Deviation bound 2: every pair of single deviations from the length / header / structure menus."""
    lens = [(4026, 0, 4026, "desc"), (8122, 1, 8122, "rot"), (4027, 0, 4026, "desc"), (1, 0, 1, "asc"), (0, 0, 0, "asc")]
    hdrs = [dict(rate=0), dict(rate=65535), dict(sid=1, ftype=0x73), dict(voltype=1)]
    dirs = ["linked", "reserved"]
    for (n, s, e, order) in lens:
        for h in hdrs:
            for dm in dirs:
                yield {"sweep": "pairs", "spec": one_file_spec(n, s, e, order, dirmode=dm, **h)}


NAME_FAMILIES = {"dots": ["KICK.1", "KICK.2", "V1.5 PAD"], "hash": ["#1", "#2", "A#B"], "plus": ["A+B", "A+C", "+"],
                 "dash": ["A-", "B-", "-C"], "dotend": ["A.", "B.", ".C"], "digits": ["1", "2", "10"],
                 "spaces": ["A B", "A  B", "A B C"], "long12": ["ABCDEFGHIJKL", "ABCDEFGHIJKM", "ABCDEFGHIJ.L"], "wavext": ["KICK", "KICK.WAV", "KICK.WAV.WAV"], "dup": ["KICK", "KICK", "SNARE"], "dup3": ["KICK", "KICK", "KICK"],
                 # every one of the 41 characters an AKAI name can hold, spread over names and volume names
                 "alpha1": ["0123456789 A", "BCDEFGHIJKLM", "NOPQRSTUVWXY"], "alpha2": ["Z#+-. FUZZ", "JAZZ", "Z"]}
VOL_NAMES = ["VOL", "VOL 1.5", "V.", "#+-.", "XYZ 0-9"]


def sweep_names(quick):
    """every character an AKAI name can hold besides letters, in the positions where naming code treats it specially;
    judged by content only (one file per sample with exactly its audio) -- which names are chosen is C06's business"""
    for fam in sorted(NAME_FAMILIES):
        for vname in VOL_NAMES:
            files, sec = [], 4
            for k, (nm, n) in enumerate(zip(NAME_FAMILIES[fam], (300, 4200, 50))):
                m = A.needed_sectors(140 + 2 * n)
                files.append({"name": nm, "n": n, "chain": list(range(sec, sec + m))[::-1], "seq": k + 1,
                              "rate": [44100, 22050, 32000][k]})
                sec += m
            yield {"sweep": "names", "family": fam,
                   "spec": {"parts": [{"vols": [{"name": vname, "dir": [3], "files": files}]}]}}


VOLNAME_SETS = [["PIANO", "PIANO"], ["PIANO", "PIANO", "PIANO"], ["PIANO", "OTHER", "PIANO"], ["A", "A."], ["A B", "A  B"], ["V", "V 2", "V"],
                ["", ""], ["#", "+"]]


def sweep_volnames(quick):
    """sibling VOLUMES with equal / nearly equal names (legal; the tool numbers them), holding samples with the SAME names
    but different audio: every volume's samples must come out, none may land on another's -- judged by content only. One
    and two partitions (the second partition repeats the names of the first)"""
    for names in VOLNAME_SETS:
        for nparts in (1, 2):
            parts = []
            for pi in range(nparts):
                vols, sec = [], 3
                for vi, vn in enumerate(names):
                    files = []
                    for k, nm in enumerate(("C3", "E3") if vi != 1 else ("C3", "E3", "G3")):
                        n = 100 + 61 * vi + 7 * k + 500 * pi
                        files.append({"name": nm, "n": n, "chain": [sec + 1 + k], "seq": 1 + k + 3 * vi + 10 * pi, "rate": [44100, 22050, 32000][(vi + k) % 3]})
                    vols.append({"name": vn, "dir": [sec], "files": files})
                    sec += 1 + len(files)
                parts.append({"vols": vols})
            yield {"sweep": "names", "family": "volnames", "spec": {"parts": parts}}


def sweep_manyparts(quick):
    """images of 26, 27, 29 and 33 partitions (one small sample each, differing lengths and rates): every one is exported"""
    for n in (26, 27, 29, 33):
        parts = [{"vols": [{"name": "V%02d" % i, "dir": [3], "files": [{"name": "S%02d" % i, "n": 40 + i, "chain": [4], "seq": 1 + i % 40,
                                                                         "rate": [44100, 22050][i % 2]}]}]} for i in range(n)]
        yield {"sweep": "names", "family": "manyparts", "spec": {"parts": parts}}


def sweep_slots(quick):
    """the volume table is indexed by volume number and may have holes: every non-empty set of <=3 occupied slots out of
    {0,1,2,3,50,98,99} (thorough: <=4), volumes stored in ascending and in descending slot order"""
    import itertools
    pool = (0, 1, 2, 3, 50, 98, 99)
    for k in (1, 2, 3) if quick else (1, 2, 3, 4):
        for slots in itertools.combinations(pool, k):
            for rev in (False, True):
                if rev and k == 1:
                    continue
                vols, sec = [], 3
                for j, slot in enumerate(slots[::-1] if rev else slots):
                    vols.append({"name": f"VOL{slot}", "slot": slot, "dir": [sec],
                                 "files": [{"name": f"S{slot}", "n": 100 + slot, "chain": [sec + 1], "seq": j + 1}]})
                    sec += 2
                yield {"sweep": "slots", "spec": {"parts": [{"vols": vols}]}}


def sweep_pairlen(quick):
    """L/R pairs of equal length for every length around the transcoder's 2048-word block and the sector size, contiguous
    and fragmented"""
    for k, n in enumerate((1, 2047, 2048, 2049, 4025, 4026, 4027, 4095, 4096, 4097, 6000, 8122, 12218, 12219)):
        rate = (22050, 32000, 44100, 48000, 8000)[k % 5]      # (the pair's own rate, both halves alike, must be the merged file's)
        for frag in (False, True):
            m = A.needed_sectors(140 + 2 * n)
            cl, cr = list(range(4, 4 + m)), list(range(4 + m, 4 + 2 * m))
            if frag:
                cl, cr = (cl + cr)[0::2], (cl + cr)[1::2][::-1]
            files = [{"name": "WIDE-L", "n": n, "chain": cl, "seq": 1, "rate": rate}, {"name": "WIDE-R", "n": n, "chain": cr, "seq": 2, "rate": rate},
                     {"name": "MONO", "n": 33, "chain": [4 + 2 * m], "seq": 3}]
            yield {"sweep": "pairlen", "spec": {"parts": [{"vols": [{"name": "VOL", "dir": [3], "files": files, "pairs": [[0, 1, "WIDE"]]}]}]}}


def sweep_bigdir(quick):
    """large volumes: n one-sector samples for n around powers of two, around the capacity of a one-sector file table (340
    entries) and up to the 510 entries of a two-sector table"""
    for n in (63, 64, 65, 127, 128, 129, 255, 256, 257, 339, 340, 341) + ((342, 400, 510) if not quick else (510,)):
        dsec = 1 if n <= 340 else 2   # 340 entries + terminator fill one sector
        files = [{"name": "S%03d" % k, "n": 20 + (k % 7), "chain": [3 + dsec + k], "seq": 1 + (k % 50), "rate": 44100 if k % 2 else 22050}
                 for k in range(n)]
        yield {"sweep": "bigdir", "spec": {"parts": [{"vols": [{"name": "BIG", "dir": list(range(3, 3 + dsec)), "files": files}]}]}}


def nontrivial(spec):
    if len(spec["parts"]) > 1:
        return True
    for p in spec["parts"]:
        if len(p["vols"]) > 1:
            return True
        for v in p["vols"]:
            for f in v["files"]:
                ch = f["chain"]
                if len(ch) > 1 and ch != list(range(ch[0], ch[0] + len(ch))):
                    return True
                if f.get("kind", "sample") == "sample" and (140 + 2 * f["n"]) % A.SECTOR == 0:
                    return True
    return False


def run_case(case):
    """-> (ok, klass, detail)"""
    spec = case["spec"]
    model = A.model_from_spec(spec)
    img, layout = A.build_akai(model)
    expected = A.expected_exports_pairs(model)
    res = tree.full_run(img, cpu_s=20.0, ls_paths=("",), again=case["sweep"] in ("structure", "names", "slots", "header"))
    if res["status"] == "hang":
        return False, "hang", {"observed": "non-termination (cpu budget)"}
    if res.get("again"):
        return False, "second-export-differs", res["again"]
    if res["status"] == "exc":
        return False, "raised:" + exc_sig(res["exc"]), {"observed": repr(res["exc"])[:300], "files": sorted(res["files"])[:5]}
    if case["sweep"] == "names":
        from mcv.ref import riff
        got = []
        for p_, b_ in res["files"].items():
            w = riff.validate(b_)
            if w.errors:
                return False, "invalid-wav", {"path": p_, "errors": w.errors[:2]}
            got.append((w.fmt["channels"], w.fmt["rate"], w.data))
        # (by content: a list, not a dict keyed by path -- equal names are part of the families)
        want = sorted((1, f["rate"] or 44100, A.words_bytes(f["words"][f["start"]:f["end"]]))
                      for part in model["partitions"] for vol in part["volumes"] for f in vol["files"] if f.get("kind") == "sample")
        if sorted(got) != want or len(res["reported"]) != len(want):
            return False, "names:samples-lost-or-changed", {"samples": sorted(expected), "files": sorted(res["files"]),
                                                            "reported": res["reported"]}
        return True, f"ok-by-content:{len(want)}files", None
    errs = tree.compare_export(expected, res["files"], res["reported"])
    if errs:
        kind = "pathset" if "path sets" in errs[0] else ("pcm" if "pcm differs" in errs[0] else "wav")
        return False, "mismatch:" + kind, {"errors": errs[:4], "expected_paths": sorted(expected)[:6]}
    nfrag = sum(1 for p in spec["parts"] for v in p["vols"] for f in v["files"]
                if len(f["chain"]) > 1 and f["chain"] != list(range(f["chain"][0], f["chain"][0] + len(f["chain"])))) 
    return True, f"ok:{len(expected)}files:{min(nfrag, 2)}fragmented", None


class Check(CheckBase):
    id = "C01"
    level = "exploration"
    title = "AKAI export is byte-exact for every sector allocation and file length"
    rule = ("union of exhaustive sweeps over writer-generated images: (alloc) all injective assignments of pool "
            "sectors to directory+2 file chains for sector-count shapes (1,1)..(3,1) [thorough adds (3,2),(1,3), "
            "2-sector directory]; (length) boundary word counts x start/end markers x chain order; (header) rate x "
            "sample id x file type x volume type; (sizes) every partition size 6..139 sectors (thorough ..399), alternately followed by a second partition; (slack) chains longer than the file needs x order x markers; (structure) partitions{1,2,3} x volumes{0,1,2} x files{0..3} x "
            "volume type x directory storage, L/R pair, non-sample siblings, trailing bytes; (pairs) all pairs of "
            "single deviations; (names) 13 families (covering all 41 characters) (incl. two / three distinct samples with one name) of names using the non-letter characters of the AKAI set (. # + - digits "
            "blanks, 12 characters) x 5 volume names, and 8 sets of equal / nearly equal sibling VOLUME names holding same-named samples with different audio (one and two partitions), and images of 26 / 27 / 29 / 33 partitions, judged by content only; (slots) every set of <=3 (thorough 4) occupied "
            "volume-table slots out of {0,1,2,3,50,98,99} in both storage orders; (bigdir) volumes of 63..510 one-sector samples "
            "(around powers of two and the 340-entry capacity of a one-sector file table); (pairlen) equal-length L/R pairs of 1..12219 words at 8000 / 22050 / 32000 / 44100 / 48000 Hz (around the 2048-word block and the sector "
            "size), contiguous and interleaved chains; the header, structure, names and slots "
            "cases export twice from one image object and the second export must equal the first. non-trivial = non ascending-contiguous multi-sector chain, or file filling its last "
            "sector exactly, or >1 partition/volume")
    assumptions = ["independent AKAI writer (mcv/gen/akai.py) and RIFF walker are correct",
                   "names are plain and collision-free here (collisions: C05/C06)"]

    def shards(self):
        cases = []
        for sw in (sweep_length, sweep_slack, sweep_sizes, sweep_header, sweep_structure, sweep_pairs, sweep_alloc, sweep_names, sweep_volnames, sweep_manyparts, sweep_slots, sweep_bigdir, sweep_pairlen):
            cases.extend(sw(self.quick))
        self._n = len(cases)
        return self.chunk(cases, 24)

    def run_shard(self, shard, rep: Report):
        cases = [shard["replay_case"]] if "replay_case" in shard else shard["cases"]
        for case in cases:
            ok, klass, detail = run_case(case)
            rep.case(case, ok=ok, klass=klass, nontrivial=nontrivial(case["spec"]), detail=detail,
                     sig=f"{case['sweep']}:{klass}")
