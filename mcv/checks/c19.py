"""C19 -- de-emphasis filters give the same output however the signal is split into blocks.

All ordered block splits (= all schedules of process() calls) of every short signal over an
extreme-value alphabet, each followed by a flush, against the one-block run of the same filter.

Subjects: (b) the Python-level classes taken from the CURRENT text of fir.pyx / iir.pyx /
common.py (the source of truth in the working tree; cdef kernels and typed def kernels are bound
to the compiled modules because Cython is not available) -- this subject decides the verdict;
(a) the compiled extension modules as imported -- decides the verdict only when (b) cannot be
built; otherwise its disagreements with (b) are reported as `compiled_stale` notes.
"""
import itertools
import os
import re

import numpy as np

from mcv.engine import core
from mcv.engine.core import CheckBase, Report, guarded, exc_sig
from mcv.ref import filters as RF

V = [-32768, -1, 0, 1, 32767]
FILTERS_DIR = os.path.join(core.REPO, "smpl_extract", "filters")


# ----------------------------------------------------------------------------- subjects
def load_compiled():
    import smpl_extract.filters.fir as F
    import smpl_extract.filters.iir as I
    import smpl_extract.filters.common as C
    ns = {}
    for m in (F, I, C):
        for k in dir(m):
            if not k.startswith("__"):
                ns[k] = getattr(m, k)
    return ns


def _blocks(text):
    """split a module text into top-level blocks (decorators stay with their def)"""
    blocks, cur = [], []
    for line in text.splitlines():
        top = bool(line) and not line[0].isspace() and not line.startswith("#") and line[0] not in ")]}"
        if top and cur and not cur[-1].lstrip().startswith("@"):
            blocks.append(cur)
            cur = []
        cur.append(line)
    if cur:
        blocks.append(cur)
    return blocks


def _python_level(text):
    keep = []
    for b in _blocks(text):
        head = next((l for l in b if l.strip() and not l.startswith("#")), "")
        if not head:
            continue
        first = head.split()[0]
        if "cimport" in head or first == "cdef" or head.startswith("@cython") or first == "cimport":
            continue
        if first == "def":
            body = [l for l in b if not l.lstrip().startswith("@")]
            sig = ""
            for l in body:
                sig += " " + l
                if l.rstrip().endswith(":"):
                    break
            if "[:]" in sig or re.search(r"\b(double|short|int|size_t|float)\s+\w+\s*[,)]", sig):
                continue
        if first == "cpdef":
            continue
        keep.append("\n".join(b))
    return "\n".join(keep) + "\n"


def load_hybrid():
    comp = load_compiled()
    import smpl_extract.filters.fir as F
    import smpl_extract.filters.iir as I
    ns_f = {k: getattr(F, k) for k in dir(F) if not k.startswith("__")}
    ns_i = {k: getattr(I, k) for k in dir(I) if not k.startswith("__")}

    def shim(x, h, k):
        return F.ChickSysCustomFirFilter(h, 0, k).convolve_valid(np.asarray(x), np.asarray(h))
    ns_f.setdefault("_c_chicken_sys_convolve_valid", shim)
    with open(os.path.join(FILTERS_DIR, "fir.pyx")) as fh:
        exec(compile(_python_level(fh.read()), "fir.pyx(python level)", "exec"), ns_f)
    with open(os.path.join(FILTERS_DIR, "iir.pyx")) as fh:
        exec(compile(_python_level(fh.read()), "iir.pyx(python level)", "exec"), ns_i)
    ns_c = {}
    ns_c.update({k: v for k, v in ns_f.items() if isinstance(v, type)})
    ns_c.update({k: v for k, v in ns_i.items() if isinstance(v, type)})
    with open(os.path.join(FILTERS_DIR, "common.py")) as fh:
        src = re.sub(r"^from smpl_extract\.filters\.\w+ import \w+\s*$", "", fh.read(), flags=re.M)
    exec(compile(src, "common.py(rebound)", "exec"), ns_c)
    ns = {}
    ns.update(ns_f)
    ns.update(ns_i)
    ns.update(ns_c)
    for need in ("FirFilter", "IirFilter", "ChickSysCustomFirFilter", "ChickSysCustomIirFilter"):
        if not isinstance(ns.get(need), type):
            raise RuntimeError(f"{need} not found at Python level")
    return ns


def load_translated():
    """Both .pyx files through the pyxlite translator (kernels included) + common.py re-bound to them."""
    from mcv.engine import pyxlite
    with open(os.path.join(FILTERS_DIR, "fir.pyx")) as fh:
        ns_f, _ = pyxlite.load(fh.read(), "fir.pyx(translated)")
    with open(os.path.join(FILTERS_DIR, "iir.pyx")) as fh:
        ns_i, _ = pyxlite.load(fh.read(), "iir.pyx(translated)")
    ns_c = {}
    ns_c.update({k: v for k, v in ns_f.items() if isinstance(v, type)})
    ns_c.update({k: v for k, v in ns_i.items() if isinstance(v, type)})
    with open(os.path.join(FILTERS_DIR, "common.py")) as fh:
        src = re.sub(r"^from smpl_extract\.filters\.\w+ import \w+\s*$", "", fh.read(), flags=re.M)
    exec(compile(src, "common.py(rebound)", "exec"), ns_c)
    ns = {}
    ns.update(ns_f)
    ns.update(ns_i)
    ns.update(ns_c)
    for need in ("FirFilter", "IirFilter", "ChickSysCustomFirFilter", "ChickSysCustomIirFilter"):
        if not isinstance(ns.get(need), type):
            raise RuntimeError(f"{need} not found in the translated source")
    # smoke test: the translated kernels must run at all, else fall back to the compiled kernels
    f = ns["ChickSysCustomIirFilter"]((0.5, 0.1, 0.2))
    f.process(np.asarray([1, 2, 3], dtype=np.int16))
    g = ns["ChickSysCustomFirFilter"](np.asarray([1, 2, 1], dtype=np.int16), 1, 4)
    g.process(np.asarray([1, 2, 3, 4], dtype=np.int16))
    ns["IirFilter"](np.asarray([0.5, 0.1]), np.asarray([1.0, -0.5])).process(np.asarray([1.0, 2.0]))
    return ns


# ----------------------------------------------------------------------------- filters
def filter_descs(quick):
    out = []
    taps = {1: [0.5], 2: [0.5, 0.25], 3: [1.0, -2.0, 3.0], 5: [0.1, 0.2, 0.4, 0.2, 0.1]}
    # taps that are exactly zero at the end / at the start / inside / everywhere (every delay offset reaches into them)
    taps.update({"z-end": [1.0, 2.0, 0.0], "z-start": [0.0, 1.0, 2.0], "z-in": [1.0, 0.0, 2.0], "z-all": [0.0, 0.0],
                 "z-pad8": [0.25, 0.5, 0.25, -0.125, 0.0, 0.0, 0.0, 0.0]})
    for n, h in taps.items():
        for m0 in range(len(h)):
            for dt in ("int16", "float64"):
                out.append({"cls": "FirFilter", "h": h, "m0": m0, "dtype": dt})
    for h, k in (([1, 2, 1], 4), ([3, -1], 2), ([1, 1, 1, 1], 1), ([1, 2, 0], 1), ([0, 0, 3], 2)):
        for m0 in range(len(h)):
            out.append({"cls": "ChickSysCustomFirFilter", "h": h, "m0": m0, "k": k, "dtype": "int16"})
    for B, A in (([0.5, -0.124], [1.0, -0.5488]), ([0.3, 0.2, 0.1], [1.0, -0.5]), ([0.3, 0.2, 0.1], [2.0, -0.5, 0.25]),
                 ([1.0], [1.0, -0.9]), ([0.25, 0.25, 0.25, 0.25], [1.0, 0.1, -0.2])):
        out.append({"cls": "IirFilter", "B": B, "A": A, "dtype": "float64"})
    # no feedback coefficients (A has one element): never run on the compiled module, whose pre-fix kernel writes
    # through a zero-sized buffer (memory corruption, aborts the process)
    out.append({"cls": "IirFilter", "B": [0.5, 0.25], "A": [2.0], "dtype": "float64", "source_only": True})
    for name in ("CdXtractRolandDeemphFilter", "ChickSysRolandDeemphFilter", "ChickSysStandardDeemphFilter",
                 "ChickSysDarkerDeemphFilter", "ChickSysSpecialDeemphFilter"):
        out.append({"cls": "preset", "name": name, "dtype": "int16"})
    return out


def make_filter(ns, d):
    if d["cls"] == "FirFilter":
        return ns["FirFilter"](np.asarray(d["h"], dtype=np.float64), d["m0"])
    if d["cls"] == "ChickSysCustomFirFilter":
        return ns["ChickSysCustomFirFilter"](np.asarray(d["h"], dtype=np.int16), d["m0"], d["k"])
    if d["cls"] == "IirFilter":
        return ns["IirFilter"](np.asarray(d["B"], dtype=np.float64), np.asarray(d["A"], dtype=np.float64))
    return ns[d["name"]]()


def signals_exhaustive(nmax):
    for n in range(1, nmax + 1):
        for t in itertools.product(V, repeat=n):
            yield list(t)


def signals_long(lengths):
    for n in lengths:
        yield [((i * 4001) % 65536) - 32768 for i in range(n)]                 # ramp through the range
        yield [32767 if i == 2 else 0 for i in range(n)]                        # impulse
        yield [32767 if i % 2 == 0 else -32768 for i in range(n)]               # alternating extremes
        yield [32767] * n                                                       # DC at the limit
        yield [-32768] * (n // 2) + [32767] * (n - n // 2)                      # step between the limits


def block_menus(n):
    """the block patterns real use produces (the tool reads 4096-byte = 2048-frame blocks) and their neighbours: a signal of
    real size cut into equal blocks of 1 .. 4096 samples, into halves, with a single sample first / last, with growing blocks"""
    out = []
    for b in (1, 2, 255, 256, 1000, 1023, 1024, 1025, 2047, 2048, 2049, 4096):
        if b < n and (b > 1 or n <= 1100):
            out.append([b] * (n // b) + ([n % b] if n % b else []))
    out += [[n // 2, n - n // 2], [1, n - 1], [n - 1, 1], [1023, 1, n - 1024], [n - 1024, 1, 1023]]
    g, acc = [], 0
    k = 1
    while acc + k < n:
        g.append(k)
        acc += k
        k *= 2
    out.append(g + [n - acc])
    return [c for c in out if all(x > 0 for x in c) and sum(c) == n]


def bounded_compositions(n, max_cuts):
    for c in range(0, max_cuts + 1):
        for cuts in itertools.combinations(range(1, n), c):
            pts = [0] + list(cuts) + [n]
            yield [b - a for a, b in zip(pts, pts[1:])]


def run_split(f, x, sizes):
    outs = []
    pos = 0
    for s in sizes:
        outs.append(np.asarray(f.process(x[pos:pos + s].copy())))
        pos += s
    outs.append(np.asarray(f.get_remaining()))
    return np.concatenate([o.astype(np.float64) for o in outs]) if outs else np.zeros(0)


def same(a, b, exact):
    if a.shape != b.shape:
        return False
    if exact:
        return bool(np.array_equal(a, b))
    return bool(np.allclose(a, b, rtol=1e-9, atol=1e-9))


def saturation_errors(ns, d, x, y):
    """16-bit presets: where the unsaturated reference leaves the int16 range the output sits at the limit."""
    name = d.get("name", "")
    if d["cls"] == "preset" and name == "ChickSysRolandDeemphFilter":
        f = ns[name]()
        ref, raw = RF.chick_fir(x, [int(v) for v in f.h], int(f.m0), int(f.k_gain))
    elif d["cls"] == "ChickSysCustomFirFilter":
        ref, raw = RF.chick_fir(x, d["h"], d["m0"], d["k"])
    elif d["cls"] == "preset" and name.startswith("ChickSys"):
        f = ns[name]()
        ref, raw = RF.chick_iir(x, [float(v) for v in f.B], [float(v) for v in f.A])
    else:
        return None
    if len(raw) != len(y):
        return None
    for i, r in enumerate(raw):
        # (from the first value that no longer fits: 32768 itself, however the fraction below it is treated)
        if r >= 32767.5 and y[i] != 32767:
            return {"index": i, "unsaturated": r, "observed": float(y[i]), "expected": 32767}
        if r <= -32768.5 and y[i] not in (-32768, -32767):
            return {"index": i, "unsaturated": r, "observed": float(y[i]), "expected": "-32768 (or -32767)"}
    return None


def check_signal(ns, d, x_list, comps, rep, subject, with_reset):
    dt = np.int16 if d["dtype"] == "int16" else np.float64
    x = np.asarray(x_list, dtype=dt)
    n = len(x_list)
    exact = d["dtype"] == "int16"

    def one():
        return run_split(make_filter(ns, d), x, [n])
    st, base = guarded(one, 20.0)
    case0 = {"subject": subject, "filter": d, "signal": x_list, "split": [n]}
    if st != "ok":
        rep.case(case0, ok=False, klass="one-block-" + ("raised:" + exc_sig(base) if st == "exc" else "hang"),
                 nontrivial=True, sig=f"{subject}:{d['cls']}:one-block-failed", detail={"observed": repr(base)[:200]})
        return
    if len(base) != n:
        rep.case(case0, ok=False, klass="length", nontrivial=True, sig=f"{subject}:{d['cls']}:length",
                 detail={"expected_len": n, "observed_len": int(len(base))})
        return
    sat = saturation_errors(ns, d, x_list, base)
    if sat:
        rep.case(case0, ok=False, klass="wraps", nontrivial=True, sig=f"{subject}:{d['cls']}:saturation", detail=sat)
        return
    mem = _memory(d, ns)
    for sizes in comps:
        rep.transitions += len(sizes) + 1
        case = {"subject": subject, "filter": d, "signal": x_list, "split": sizes, "reset": with_reset}

        def go():
            f = make_filter(ns, d)
            if with_reset == "flush":
                # a whole earlier stream (fed and FLUSHED, ending loud) went through this object before
                f.process(np.asarray([7, -9, 11, 13, -32768, 32767, 5, 32767, -32768][:max(2, n)], dtype=dt))
                f.get_remaining()
            elif with_reset:
                f.process(np.asarray([7, -9, 11, 13, -32768, 32767, 5][:max(1, n)], dtype=dt))
                f.reset_state()
            return run_split(f, x, sizes)
        st, got = guarded(go, 20.0)
        nt = any(s < mem for s in sizes) and len(sizes) > 1
        if st != "ok":
            rep.case(case, ok=False, klass="raised" if st == "exc" else "hang", nontrivial=nt,
                     sig=f"{subject}:{d['cls']}:split-{'raised:' + exc_sig(got) if st == 'exc' else 'hang'}",
                     detail={"observed": repr(got)[:200]})
            continue
        if len(got) != n:
            rep.case(case, ok=False, klass="length", nontrivial=nt, sig=f"{subject}:{d['cls']}:length" + ((":after-flush" if with_reset == "flush" else ":after-reset") if with_reset else ""),
                     detail={"expected_len": n, "observed_len": int(len(got))})
        elif not same(got, base, exact):
            i = int(np.argmax(~np.isclose(got, base))) if got.shape == base.shape else -1
            rep.case(case, ok=False, klass="split-differs", nontrivial=nt,
                     sig=f"{subject}:{d['cls']}:split-differs" + ((":after-flush" if with_reset == "flush" else ":after-reset") if with_reset else ""),
                     detail={"first_difference": i, "one_block": base[max(0, i - 1):i + 3].tolist(),
                             "split": got[max(0, i - 1):i + 3].tolist()})
        else:
            rep.case(case, klass=("reset-same" if with_reset else "same") + f":{len(sizes)}blocks" if len(sizes) < 4 else ("reset-same" if with_reset else "same") + ":4+blocks",
                     nontrivial=nt)


def _memory(d, ns):
    if d["cls"] in ("FirFilter", "ChickSysCustomFirFilter"):
        return len(d["h"])
    if d["cls"] == "IirFilter":
        return max(len(d["B"]), len(d["A"]))
    return 19 if d["name"] == "ChickSysRolandDeemphFilter" else (8 if d["name"].startswith("CdX") else 2)


class Check(CheckBase):
    id = "C19"
    level = "model_checking"
    title = "De-emphasis filters give the same output however the signal is split into blocks"
    rule = ("per filter (FirFilter taps 1,2,3,5 and five tap sets with exact zeros at the end / start / inside / everywhere / padding an 8-tap table x every delay offset x {int16,float64}; ChickSysCustomFirFilter 5 tap sets (two with zero taps) x "
            "every delay; IirFilter 5 coefficient sets; the 5 presets) and per signal (all of {-32768,-1,0,1,32767}^n for "
            "n<=4 quick / 5 thorough; ramp, impulse, alternating extremes, DC at the limit, step, of length 8,10 quick / "
            "8,10,12 thorough; length 24 with all splits of <=3 cut points; length 1030 and 4100 (thorough also 2050, 9000) under a menu of ~15 block patterns: equal blocks of 1..4096 samples, halves, a single sample first / last / in the middle, doubling blocks): ALL 2^(n-1) ordered block splits (menu for the long ones), each followed "
            "by get_remaining(), compared with the one-block run (exact for int16, allclose for float); total length == n; "
            "16-bit presets compared with a saturating reference where the unsaturated value leaves the int16 range; the "
            "same after process(garbage)+reset_state(), and after a complete earlier stream (fed and flushed) through the same object. states = schedules (splits) executed, transitions = process/flush "
            "calls. non-trivial = split containing a block shorter than the filter memory")
    assumptions = ["a flushed filter starts the next stream like a new one (get_remaining ends a stream; every filter of the unchanged tree resets there)",
                   "the verdict is decided on the CURRENT text of fir.pyx / iir.pyx / common.py, executed through a small "
                   "Cython-subset translator (mcv/engine/pyxlite.py; C integer wrap/division semantics are not emulated); "
                   "if the translator does not apply, the Python-level classes are exec'd with the compiled kernels bound in, "
                   "and edits confined to cdef kernels are then invisible",
                   "compiled classes that disagree with the source text are reported as compiled_stale, not as violations"]

    def shards(self):
        descs = filter_descs(self.quick)
        out = []
        for i, d in enumerate(descs):
            out.append({"filter": d, "part": "short"})
            out.append({"filter": d, "part": "long"})
            out.append({"filter": d, "part": "reset"})
            out.append({"filter": d, "part": "blocks"})
        return out

    def _subjects(self, rep):
        subs = []
        try:
            subs.append(("source", load_translated()))
            rep.notes["source subject = translated .pyx text (kernels included)"] += 1
        except Exception as e:  # noqa -- translator does not apply: fall back to python-level classes + compiled kernels
            rep.notes[f"translation not applicable ({type(e).__name__}: {str(e)[:60]}): python-level classes + compiled kernels"] += 1
            try:
                subs.append(("source", load_hybrid()))
            except Exception as e2:  # noqa -- extraction does not apply: skip, never fail
                rep.notes[f"source subject skipped: {type(e2).__name__}: {str(e2)[:80]}"] += 1
        try:
            comp = load_compiled()
            subs.append(("compiled", comp))
        except Exception as e:  # noqa
            rep.notes[f"compiled subject unavailable: {type(e).__name__}"] += 1
        if not subs:
            raise core.HarnessError("neither the source-level classes nor the compiled filter modules can be loaded")
        return subs

    def run_shard(self, shard, rep: Report):
        if "replay_case" in shard:
            c = shard["replay_case"]
            subs = dict(self._subjects(rep))
            ns = subs.get(c["subject"]) or next(iter(subs.values()))
            sub = Report()
            check_signal(ns, c["filter"], c["signal"], [c["split"]], sub, c["subject"], c.get("reset") if c.get("reset") == "flush" else bool(c.get("reset")))
            if sub.viol_count:
                v = sub.violations[0]
                rep.case(c, ok=False, klass=v["sig"], detail=v["detail"], sig=v["sig"])
            else:
                rep.case(c, ok=True)
            return
        d = shard["filter"]
        subs = self._subjects(rep)
        decide = subs[0][0]
        for subject, ns in subs:
            if d.get("source_only") and subject == "compiled":
                continue
            sub = rep if subject == decide else Report()
            before = sub.evaluations
            if shard["part"] == "short":
                for x in signals_exhaustive(4 if self.quick else 5):
                    check_signal(ns, d, x, list(RF.compositions(len(x))), sub, subject, False)
            elif shard["part"] == "blocks":
                # signals of real size (an implementation may treat long blocks differently from short ones)
                for x in signals_long((1030, 4100) if self.quick else (1030, 2050, 4100, 9000)):
                    check_signal(ns, d, x, block_menus(len(x)), sub, subject, False)
            elif shard["part"] == "long":
                for x in signals_long((8, 10) if self.quick else (8, 10, 12)):
                    check_signal(ns, d, x, list(RF.compositions(len(x))), sub, subject, False)
                for x in signals_long((24,)):
                    check_signal(ns, d, x, list(bounded_compositions(24, 2 if self.quick else 3)), sub, subject, False)
            else:
                for x in signals_long((8,)):
                    check_signal(ns, d, x, list(RF.compositions(len(x))), sub, subject, True)
                for x in signals_exhaustive(3):
                    check_signal(ns, d, x, list(RF.compositions(len(x))), sub, subject, True)
                # the same after a complete earlier stream (fed and flushed) through the same object
                for x in signals_long((8,)):
                    check_signal(ns, d, x, list(RF.compositions(len(x))), sub, subject, "flush")
                for x in signals_exhaustive(3):
                    check_signal(ns, d, x, list(RF.compositions(len(x))), sub, subject, "flush")
            if sub is rep:
                rep.states += rep.evaluations - before
                rep.traces += rep.evaluations - before
            else:
                rep.notes["compiled_checked"] += sub.evaluations
                if sub.viol_count:
                    rep.notes["compiled_violations (verdict comes from the source text; a stale build artefact if the source passes)"] += sub.viol_count

    def replay(self, case, rep):
        self.run_shard({"replay_case": case}, rep)
