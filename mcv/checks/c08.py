"""C08 -- byte-window views behave as read-only files under any seek/read history.

Explicit-state exploration of the real stream classes: BFS over operation sequences from
the fresh object, de-duplicated on a canonical form of the whole layer stack, until the
graph closes; plus all un-deduplicated sequences to a small depth on fresh objects.
Every edge is an implementation step compared with the reference model (a bytes slice).
"""
import collections
import copy
import contextlib
import io
import itertools

from mcv.engine import core
from mcv.engine.core import CheckBase, Report, guarded, exc_sig
from mcv.ref.streammodel import RefFile, Reject


def base_bytes(n, salt=0):
    # position-coding: period 251 is coprime to every sector size used here
    return bytes(((i * 7 + 3 + salt) % 251) for i in range(n))


# ----------------------------------------------------------------------------- configurations
def _mods():
    from smpl_extract.util import stream as S
    from smpl_extract.util import sector as SEC
    from smpl_extract.util import fat as F
    from smpl_extract.alcohol import mdf as MDF
    return S, SEC, F, MDF


class MdfConsts:
    """Rebind the raw-sector constants from the outside (tiny sectors close the graph)."""

    def __init__(self, header, body, footer):
        self.vals = (header, body, footer)

    def __enter__(self):
        _, _, _, MDF = _mods()
        self.saved = (MDF.MDF_SECTOR_SIZE, MDF.MDF_SECTOR_HEADER_SIZE, MDF.MDF_SECTOR_BODY_SIZE)
        h, b, f = self.vals
        if all(hasattr(MDF, n) for n in ("MDF_SECTOR_SIZE", "MDF_SECTOR_HEADER_SIZE", "MDF_SECTOR_BODY_SIZE")):
            MDF.MDF_SECTOR_SIZE, MDF.MDF_SECTOR_HEADER_SIZE, MDF.MDF_SECTOR_BODY_SIZE = h + b + f, h, b
        return self

    def __exit__(self, *a):
        _, _, _, MDF = _mods()
        MDF.MDF_SECTOR_SIZE, MDF.MDF_SECTOR_HEADER_SIZE, MDF.MDF_SECTOR_BODY_SIZE = self.saved


def mdf_logical(raw, h, b, f):
    n = len(raw) // (h + b + f)
    return b"".join(raw[i * (h + b + f) + h: i * (h + b + f) + h + b] for i in range(n))


def chain_logical(parent, sector, chain):
    return b"".join(parent[c * sector:(c + 1) * sector] for c in chain)


def rev_words(b, w):
    return b"".join(b[i:i + w] for i in range(len(b) - w, -1, -w))


def build(cfg):
    """cfg -> (stream, logical content bytes, width (0 = plain), sector hint, context manager or None)"""
    S, SEC, F, MDF = _mods()
    k = cfg["kind"]
    if k == "offset":
        off, L, tail = cfg["off"], cfg["L"], cfg["tail"]
        raw = base_bytes(off + L + tail)
        return S.StreamOffset(io.BytesIO(raw), L, off), raw[off:off + L], 0
    if k == "wrapper":
        L, tail = cfg["L"], cfg["tail"]
        raw = base_bytes(L + tail)
        return S.StreamWrapper(io.BytesIO(raw), L), raw[:L], 0
    if k == "file":
        sec, chain, tail = cfg["sector"], cfg["chain"], cfg.get("tail", 0)
        raw = base_bytes(sec * (max(chain) + 1) + tail)
        return F.FileStream(io.BytesIO(raw), sec, list(chain)), chain_logical(raw, sec, chain), 0
    if k == "sector":
        sec, size = cfg["sector"], cfg["size"]
        raw = base_bytes(size + cfg.get("tail", 0))
        return SEC.SectorStream(io.BytesIO(raw), size, sec), raw[:size], 0
    if k == "mdf":
        h, b, f = cfg["hbf"]
        raw = base_bytes((h + b + f) * cfg["n"] + cfg.get("rag", 0))
        return MDF.MdfStream(io.BytesIO(raw)), mdf_logical(raw, h, b, f), 0
    if k == "reversed":
        L, w = cfg["L"], cfg["w"]
        raw = base_bytes(L + cfg.get("tail", 0))
        return S.StreamReversed(io.BytesIO(raw), L, sample_width=w), rev_words(raw[:L], w), w
    if k == "nest_akai":
        # StreamOffset(StreamWrapper(FileStream(StreamOffset(file)))) -- an AKAI sample's data
        sec, chain = cfg["sector"], cfg["chain"]
        poff = cfg["poff"]
        psize = sec * (max(chain) + 1) + cfg.get("ptail", 0)
        if cfg.get("mdf"):
            h, b, f = cfg["mdf"]
            nsec = -(-(poff + psize) // b)
            raw = base_bytes((h + b + f) * nsec)
            file_logical = mdf_logical(raw, h, b, f)
            fobj = MDF.MdfStream(io.BytesIO(raw))
        else:
            raw = base_bytes(poff + psize + 3)
            file_logical = raw
            fobj = io.BytesIO(raw)
        part_logical = file_logical[poff:poff + psize]
        seg_logical = chain_logical(part_logical, sec, chain)
        fsize = cfg["fsize"]
        hdr, L = cfg["hdr"], cfg["L"]
        st = S.StreamOffset(
            S.StreamWrapper(F.FileStream(S.StreamOffset(fobj, psize, poff), sec, list(chain)), fsize),
            L, hdr)
        return st, seg_logical[:fsize][hdr:hdr + L], 0
    if k == "nest_roland_rev":
        sec, chain = cfg["sector"], cfg["chain"]
        poff = cfg["poff"]
        psize = sec * (max(chain) + 1)
        raw = base_bytes(poff + psize + 2)
        part_logical = raw[poff:poff + psize]
        seg_logical = chain_logical(part_logical, sec, chain)
        off, L = cfg["off"], cfg["L"]
        inner = S.StreamOffset(F.FileStream(S.StreamOffset(io.BytesIO(raw), psize, poff), sec, list(chain)), L, off)
        if cfg.get("rev", True):
            return S.StreamReversed(inner, L, sample_width=2), rev_words(seg_logical[off:off + L], 2), 2
        return inner, seg_logical[off:off + L], 0
    if k == "mdx":
        # the MDX wrapper as the tool opens it: 64-byte header (with the end-of-payload field), payload, footer of 0..n bytes
        from smpl_extract.alcohol import mdx as MDX_
        from mcv.gen import containers as C_
        payload = base_bytes(cfg["L"])
        raw = C_.mdx(payload, descriptor=cfg["footer"])
        return MDX_.MdxStream(io.BytesIO(raw)), payload, 0
    if k == "late_window":
        # a window laid over a parent VIEW (which knows its own length) that has already been read / moved when the window
        # is built -- the way a second sample, or a second export, finds the partition stream
        pk, ppos, off, L = cfg["parent"], cfg["ppos"], cfg["off"], cfg["L"]
        if pk == "offset":
            raw = base_bytes(24)
            parent, pl = S.StreamOffset(io.BytesIO(raw), 16, 5), raw[5:21]
        elif pk == "file":
            raw = base_bytes(4 * 4 + 1)
            parent, pl = F.FileStream(io.BytesIO(raw), 4, [2, 0, 3, 1]), chain_logical(raw, 4, [2, 0, 3, 1])
        else:
            raw = base_bytes(7 * 4)
            parent, pl = MDF.MdfStream(io.BytesIO(raw)), mdf_logical(raw, 2, 4, 1)
        parent.seek(ppos, 0)
        if cfg.get("pread"):
            parent.read(cfg["pread"])
        return S.StreamOffset(parent, L, off), pl[off:off + L], 0
    if k == "nest_mdx":
        o1, o2, L = cfg["o1"], cfg["o2"], cfg["L"]
        raw = base_bytes(o1 + o2 + L + cfg.get("tail", 0))
        return S.StreamOffset(S.StreamOffset(io.BytesIO(raw), o2 + L, o1), L, o2), raw[o1 + o2:o1 + o2 + L], 0
    raise core.HarnessError(f"unknown config {cfg}")


def build_pair(cfg):
    """two views layered over ONE shared parent object (the way all sample streams of an image share the image file and
    its partition stream) -> (view A, view B, shared parent, content A, content B, width A, width B)"""
    S, SEC, F, MDF = _mods()
    k = cfg["pair"]
    if k == "offsets":
        raw = base_bytes(16)
        parent = io.BytesIO(raw)
        (oa, la), (ob, lb) = cfg["a"], cfg["b"]
        return S.StreamOffset(parent, la, oa), S.StreamOffset(parent, lb, ob), parent, raw[oa:oa + la], raw[ob:ob + lb], 0, 0
    if k == "wrapper+offset":
        raw = base_bytes(14)
        parent = io.BytesIO(raw)
        la, (ob, lb) = cfg["a"], cfg["b"]
        return S.StreamWrapper(parent, la), S.StreamOffset(parent, lb, ob), parent, raw[:la], raw[ob:ob + lb], 0, 0
    if k == "files":
        # two sector-chained files of one partition window
        sec, poff = cfg["sector"], cfg["poff"]
        ca, cb = cfg["a"], cfg["b"]
        psize = sec * (max(ca + cb) + 1)
        raw = base_bytes(poff + psize + 2)
        parent = S.StreamOffset(io.BytesIO(raw), psize, poff)
        pl = raw[poff:poff + psize]
        return (F.FileStream(parent, sec, list(ca)), F.FileStream(parent, sec, list(cb)), parent,
                chain_logical(pl, sec, ca), chain_logical(pl, sec, cb), 0, 0)
    if k == "files2":
        # the same chain over two DIFFERENT parents holding different bytes at the same addresses (two images in one
        # process): nothing one view has seen may show up in the other
        sec, ca, cb = cfg["sector"], cfg["a"], cfg["b"]
        raw1, raw2 = base_bytes(sec * (max(ca + cb) + 1)), base_bytes(sec * (max(ca + cb) + 1), salt=97)
        p1, p2 = io.BytesIO(raw1), io.BytesIO(raw2)
        return (F.FileStream(p1, sec, list(ca)), F.FileStream(p2, sec, list(cb)), p1,
                chain_logical(raw1, sec, ca), chain_logical(raw2, sec, cb), 0, 0)
    if k == "mdf2":
        h, b, f = cfg["hbf"]
        raw1, raw2 = base_bytes((h + b + f) * cfg["n"]), base_bytes((h + b + f) * cfg["n"], salt=55)
        p1 = io.BytesIO(raw1)
        return MDF.MdfStream(p1), MDF.MdfStream(io.BytesIO(raw2)), p1, mdf_logical(raw1, h, b, f), mdf_logical(raw2, h, b, f), 0, 0
    if k == "file-over-mdf":
        # a chained file over the raw-sector view, and a second raw-sector view of the same parent: sector addresses of the
        # two layers coincide numerically (7*i+2 == 4*k) although they live in different address spaces
        h, b, f = cfg["hbf"]
        raw = base_bytes((h + b + f) * cfg["n"])
        p1 = io.BytesIO(raw)
        lg = mdf_logical(raw, h, b, f)
        return (F.FileStream(MDF.MdfStream(p1), cfg["sector"], list(cfg["a"])), MDF.MdfStream(p1), p1,
                chain_logical(lg, cfg["sector"], cfg["a"]), lg, 0, 0)
    if k == "samples":
        # StreamOffset(StreamWrapper(FileStream(partition))) twice -- two AKAI samples of one partition
        sec, poff = cfg["sector"], cfg["poff"]
        (ca, fa, ha, la), (cb, fb, hb, lb) = cfg["a"], cfg["b"]
        psize = sec * (max(ca + cb) + 1)
        raw = base_bytes(poff + psize + 3)
        parent = S.StreamOffset(io.BytesIO(raw), psize, poff)
        pl = raw[poff:poff + psize]
        A_ = S.StreamOffset(S.StreamWrapper(F.FileStream(parent, sec, list(ca)), fa), la, ha)
        B_ = S.StreamOffset(S.StreamWrapper(F.FileStream(parent, sec, list(cb)), fb), lb, hb)
        return A_, B_, parent, chain_logical(pl, sec, ca)[:fa][ha:ha + la], chain_logical(pl, sec, cb)[:fb][hb:hb + lb], 0, 0
    if k == "rev+fwd":
        # a reversed and a forward window over ONE sector-chained file
        sec, chain = cfg["sector"], cfg["chain"]
        raw = base_bytes(sec * (max(chain) + 1) + 1)
        parent = F.FileStream(io.BytesIO(raw), sec, list(chain))
        seg = chain_logical(raw, sec, chain)
        (oa, la), (ob, lb) = cfg["a"], cfg["b"]
        return (S.StreamReversed(S.StreamOffset(parent, la, oa), la, sample_width=2), S.StreamOffset(parent, lb, ob), parent,
                rev_words(seg[oa:oa + la], 2), seg[ob:ob + lb], 2, 0)
    if k == "mdf":
        h, b, f = cfg["hbf"]
        raw = base_bytes((h + b + f) * cfg["n"])
        parent = MDF.MdfStream(io.BytesIO(raw))
        lg = mdf_logical(raw, h, b, f)
        (oa, la), (ob, lb) = cfg["a"], cfg["b"]
        return S.StreamOffset(parent, la, oa), S.StreamOffset(parent, lb, ob), parent, lg[oa:oa + la], lg[ob:ob + lb], 0, 0
    raise core.HarnessError(f"unknown pair {cfg}")


def pair_configs():
    out = []
    for a, b in (((0, 8), (4, 8)), ((2, 6), (2, 6)), ((0, 4), (8, 4)), ((3, 9), (0, 5))):
        out.append({"pair": "offsets", "a": list(a), "b": list(b), "s": 4})
    out.append({"pair": "wrapper+offset", "a": 9, "b": [3, 8], "s": 4})
    out.append({"pair": "wrapper+offset", "a": 4, "b": [4, 4], "s": 4})
    for ca, cb in (([1, 0], [2, 3]), ([0, 2], [3, 1]), ([0, 1], [2]), ([2, 0, 1], [3])):
        out.append({"pair": "files", "sector": 4, "poff": 5, "a": ca, "b": cb, "s": 4})
    out.append({"pair": "files", "sector": 4, "poff": 0, "a": [0, 1], "b": [0, 1], "s": 4})     # the same file opened twice
    for A_, B_ in ((([1, 0], 8, 2, 6), ([2, 3], 7, 1, 6)), (([0, 2], 8, 0, 8), ([3, 1], 8, 4, 4)), (([0, 1], 8, 2, 6), ([0, 1], 8, 2, 6))):
        out.append({"pair": "samples", "sector": 4, "poff": 3, "a": list(A_), "b": list(B_), "s": 4})
    out.append({"pair": "rev+fwd", "sector": 4, "chain": [1, 0, 2], "a": [2, 8], "b": [0, 12], "s": 4})
    out.append({"pair": "rev+fwd", "sector": 4, "chain": [0, 1], "a": [0, 8], "b": [4, 4], "s": 4})
    out.append({"pair": "mdf", "hbf": [2, 4, 1], "n": 3, "a": [0, 8], "b": [4, 8], "s": 4})
    out.append({"pair": "mdf", "hbf": [2, 4, 1], "n": 3, "a": [3, 6], "b": [3, 6], "s": 4})
    out.append({"pair": "files2", "sector": 4, "a": [1, 0], "b": [1, 0], "s": 4})
    out.append({"pair": "files2", "sector": 4, "a": [0, 2], "b": [2, 1], "s": 4})
    # (wide: the product graph of these does not close under the state cap; they are explored to a depth bound in both tiers)
    out.append({"pair": "mdf2", "hbf": [2, 4, 1], "n": 3, "s": 4, "wide": True})
    out.append({"pair": "file-over-mdf", "hbf": [2, 4, 1], "n": 6, "sector": 4, "a": [4, 0], "s": 4, "wide": True})
    out.append({"pair": "file-over-mdf", "hbf": [2, 4, 1], "n": 6, "sector": 4, "a": [0, 4, 2], "s": 4, "wide": True})
    return out


def pair_alphabet(cfg, L, quick=True):
    s = cfg["s"]
    if quick:
        return [["tell"], ["seek", 0, 0], ["seek", 1, 0], ["seek", s, 0], ["seek", -1, 2], ["seek", 2, 1],
                ["read", 1], ["read", 2], ["read", s + 1], ["read", -1]]
    ops = [["tell"]]
    for o, w in ((0, 0), (1, 0), (2, 0), (s, 0), (L - 1, 0), (L, 0), (-1, 2), (-2, 2), (1, 1), (2, 1), (-2, 1)):
        ops.append(["seek", o, w])
    for n in (0, 1, 2, s, s + 1, s + 2, -1):
        ops.append(["read", n])
    return ops


def cfg_ctx(cfg):
    if cfg.get("pair") in ("mdf", "mdf2", "file-over-mdf"):
        return MdfConsts(*cfg["hbf"])
    if "pair" in cfg:
        import contextlib
        return contextlib.nullcontext()
    if cfg["kind"] == "mdf":
        return MdfConsts(*cfg["hbf"])
    if cfg["kind"] in ("nest_akai", "late_window") and cfg.get("mdf"):
        return MdfConsts(*cfg["mdf"])
    import contextlib
    return contextlib.nullcontext()


def configs(quick):
    out = []
    for off in (0, 3):
        for L in (1, 2, 4, 8, 9):
            for tail in (0, 5):
                out.append({"kind": "offset", "off": off, "L": L, "tail": tail, "s": 4})
    for L in (1, 4, 9):
        out.append({"kind": "wrapper", "L": L, "tail": 0, "s": 4})
        out.append({"kind": "wrapper", "L": L, "tail": 2, "s": 4})
    for chain in ([0], [1, 0], [2, 0, 1], [0, 1, 2], [3, 1]):
        out.append({"kind": "file", "sector": 4, "chain": chain, "s": 4})
    out.append({"kind": "file", "sector": 3, "chain": [1, 2, 0], "tail": 2, "s": 3})
    # every injective chain of 3 out of 4 sectors (first/last adjacent with the middle elsewhere, etc.)
    import itertools as _it
    for ch in _it.permutations(range(4), 3):
        if list(ch) not in ([2, 0, 1], [0, 1, 2]):
            out.append({"kind": "file", "sector": 2, "chain": list(ch), "s": 2})
    for ch in ([0, 3, 2, 1], [3, 0, 1, 2], [1, 3, 0, 2]):
        out.append({"kind": "file", "sector": 2, "chain": ch, "s": 2})
    for size in (9, 10, 8, 1):
        out.append({"kind": "sector", "sector": 4, "size": size, "s": 4})
    for n, rag in ((1, 0), (2, 0), (3, 0), (2, 3), (3, 6)):
        out.append({"kind": "mdf", "hbf": [2, 4, 1], "n": n, "rag": rag, "s": 4})
    out.append({"kind": "mdf", "hbf": [16, 2048, 288], "n": 3, "rag": 0, "s": 2048, "big": True})
    out.append({"kind": "mdf", "hbf": [16, 2048, 288], "n": 2, "rag": 100, "s": 2048, "big": True})
    for L, w in ((1, 1), (2, 1), (5, 1), (2, 2), (4, 2), (8, 2), (6, 2)):
        out.append({"kind": "reversed", "L": L, "w": w, "s": 4})
    out.append({"kind": "reversed", "L": 4, "w": 2, "tail": 3, "s": 4})
    for L, w in ((3, 3), (6, 3), (12, 3), (8, 4), (12, 4), (6, 6), (12, 6), (10, 5)):
        out.append({"kind": "reversed", "L": L, "w": w, "s": w})
    # nestings the tool builds
    for chain, fsize, hdr, L in (([1, 0], 8, 2, 6), ([2, 0, 1], 12, 2, 10), ([2, 0, 1], 11, 3, 6),
                                 ([0, 2], 8, 0, 8), ([1, 0], 7, 2, 4), ([1, 0], 8, 4, 4), ([0, 3, 2], 12, 1, 11)):
        out.append({"kind": "nest_akai", "sector": 4, "chain": chain, "poff": 5, "fsize": fsize,
                    "hdr": hdr, "L": L, "s": 4})
    out.append({"kind": "nest_akai", "sector": 4, "chain": [1, 0], "poff": 0, "fsize": 8, "hdr": 2,
                "L": 6, "ptail": 1, "s": 4})
    for chain, fsize, hdr, L in (([1, 0], 8, 2, 6), ([2, 0, 1], 12, 2, 10), ([0, 1], 7, 1, 6)):
        out.append({"kind": "nest_akai", "sector": 4, "chain": chain, "poff": 3, "fsize": fsize,
                    "hdr": hdr, "L": L, "mdf": [2, 3, 1], "s": 4})
        out.append({"kind": "nest_akai", "sector": 4, "chain": chain, "poff": 4, "fsize": fsize,
                    "hdr": hdr, "L": L, "mdf": [2, 4, 1], "s": 4})
    for chain, off, L in (([1, 0], 2, 6), ([2, 0, 1], 0, 12), ([2, 0, 1], 4, 8), ([0], 0, 4), ([1, 2], 2, 4), ([0, 3, 2], 0, 12),
                          ([1, 3, 2], 2, 8)):
        out.append({"kind": "nest_roland_rev", "sector": 4, "chain": chain, "poff": 6, "off": off, "L": L, "s": 4})
        out.append({"kind": "nest_roland_rev", "sector": 4, "chain": chain, "poff": 6, "off": off, "L": L,
                    "rev": False, "s": 4})
    for L in (1, 8, 9):
        for footer in (0, 1, 7, 63, 64, 65, 200):
            out.append({"kind": "mdx", "L": L, "footer": footer, "s": 4})
    for pk in ("offset", "file", "mdf"):
        for ppos, pread in ((0, 0), (3, 0), (9, 0), (14, 0), (16, 0), (0, 16), (5, 4)):
            for off, L in ((0, 16), (8, 8), (4, 6)):
                out.append({"kind": "late_window", "parent": pk, "ppos": ppos, "pread": pread, "off": off, "L": L, "s": 4,
                            **({"mdf": [2, 4, 1]} if pk == "mdf" else {})})
    for o1, o2, L, tail in ((0, 0, 4, 0), (2, 3, 5, 0), (2, 3, 5, 4), (64, 0, 8, 0)):
        out.append({"kind": "nest_mdx", "o1": o1, "o2": o2, "L": L, "tail": tail, "s": 4})
    return out


def alphabet(cfg, L):
    s = cfg["s"]
    offs = sorted({-1, 0, 1, 2, L - 1, L, L + 1, -L, s})
    if cfg.get("big"):
        offs = sorted({-1, 0, 1, s - 1, s, s + 1, 2 * s, L - 1, L, L + 1})
    ops = [["tell"]]
    for w in (0, 1, 2):
        for o in offs:
            ops.append(["seek", o, w])
    sizes = sorted({0, 1, 2, 3, s - 1, s, s + 1, L, L + 1})
    if cfg.get("big"):
        sizes = sorted({0, 1, 2, s - 1, s, s + 1, 2 * s, 2 * s + 1, L, L + 1, 4096})
    for n in sizes:
        ops.append(["read", n])
    ops.append(["read", -1])
    return ops


# ----------------------------------------------------------------------------- canonical state
def canon(obj, depth=0):
    if isinstance(obj, io.BytesIO):
        return ("BytesIO", obj.tell())
    if depth > 8:
        return ("deep",)
    items = []
    d = getattr(obj, "__dict__", None)
    if d is None:
        return (type(obj).__name__,)
    for k in sorted(d):
        v = d[k]
        if isinstance(v, (int, str, bool, float, type(None))):
            items.append((k, v))
        elif isinstance(v, (list, tuple)) and all(isinstance(x, int) for x in v):
            items.append((k, tuple(v)))
        elif isinstance(v, io.IOBase):
            items.append((k, canon(v, depth + 1)))
        else:
            items.append((k, type(v).__name__))
    return (type(obj).__name__, tuple(items))


def impl_apply(stream, op):
    if op[0] == "tell":
        return stream.tell()
    if op[0] == "seek":
        return stream.seek(op[1], op[2])
    return stream.read(op[1])


def step(stream, model, op, width):
    """Apply op to both; returns (ok, klass, detail, dead) -- dead: branch ends (rejection)."""
    m2 = model
    may_reject = False
    must_reject = False
    try:
        exp = m2.apply(op)
    except Reject:
        must_reject = True
        exp = None
    if width and not must_reject and op[0] == "read" and op[1] is not None and op[1] >= 0 and op[1] % width:
        may_reject = True   # requested size unaligned but clipped size aligned: statement leaves it open
    st, val = guarded(lambda: impl_apply(stream, op), 5.0)
    if st == "hang":
        return False, "hang", {"op": op, "observed": "non-termination"}, True
    if must_reject or (st == "exc" and may_reject):
        if st == "exc":
            # a rejected operation has no effect: the view is still where it was (model state is untouched, Reject is
            # raised before the model moves) and the history goes on
            st2, pos = guarded(lambda: stream.tell(), 5.0)
            if st2 != "ok" or pos != model.p:
                return False, "moved-by-rejected-op", {"op": op, "expected_pos": model.p, "observed_pos": repr(pos)[:80]}, True
            return True, ("rejected:" + type(val).__name__) if must_reject else "rejected-optional", None, False
        return False, "unaligned-accepted", {"op": op, "expected": "rejection", "observed": repr(val)[:80]}, True
    if st == "exc":
        if may_reject:
            return True, "rejected-optional", None, True
        return False, "raised:" + exc_sig(val), {"op": op, "expected": repr(exp)[:80], "observed": repr(val)[:200]}, True
    if isinstance(exp, bytes):
        good = isinstance(val, (bytes, bytearray)) and bytes(val) == exp
    else:
        good = (val == exp) and not isinstance(val, bool)
    if not good:
        return False, "mismatch:" + op[0], {"op": op, "expected": repr(exp)[:120], "observed": repr(val)[:120]}, True
    # position advanced by the number of bytes returned: visible through tell()
    st2, pos = guarded(lambda: stream.tell(), 5.0)
    if st2 != "ok" or pos != model.p:
        return False, "tell-after:" + op[0], {"op": op, "expected_pos": model.p, "observed_pos": repr(pos)[:80]}, True
    return True, "ok", None, False


# ----------------------------------------------------------------------------- windows that hang over the end of their parent
def overhang_configs():
    """a window whose declared extent reaches beyond the end of the VIEW it is laid over (the last partition of an image
    that declares more sectors than its container holds): what lies behind the parent view in the file is not part of it"""
    out = []
    for parent in ("offset", "offset2", "file", "mdf", "mdx"):
        for off, L in ((0, 20), (4, 14), (10, 8), (15, 3)):
            out.append({"over": parent, "off": off, "L": L, "s": 4})
    return out


def build_overhang(cfg):
    """-> (window, the bytes of the parent view that lie inside the window (shorter than the window's declared length))"""
    S, SEC, F, MDF = _mods()
    k, off, L = cfg["over"], cfg["off"], cfg["L"]
    if k == "offset":
        raw = base_bytes(40)
        parent, pl = S.StreamOffset(io.BytesIO(raw), 16, 5), raw[5:21]
    elif k == "offset2":
        raw = base_bytes(48)
        parent, pl = S.StreamOffset(S.StreamOffset(io.BytesIO(raw), 30, 3), 16, 2), raw[5:21]
    elif k == "file":
        raw = base_bytes(4 * 6 + 3)
        parent, pl = F.FileStream(io.BytesIO(raw), 4, [2, 0, 3, 1]), chain_logical(raw, 4, [2, 0, 3, 1])
    elif k == "mdf":
        raw = base_bytes(7 * 4)
        parent, pl = MDF.MdfStream(io.BytesIO(raw)), mdf_logical(raw, 2, 4, 1)
    else:
        from smpl_extract.alcohol import mdx as MDX_
        from mcv.gen import containers as C_
        pl = base_bytes(16)
        parent = MDX_.MdxStream(io.BytesIO(C_.mdx(pl, descriptor=40)))
    return S.StreamOffset(parent, L, off), pl[off:off + L]


OVERHANG_OPS = [["seek", 0, 0], ["seek", 3, 0], ["seek", -1, 2], ["seek", -3, 1], ["seek", 2, 1], ["read", 1], ["read", 3],
                ["read", 5], ["read", 30], ["read", -1], ["tell"]]


def run_overhang(cfg, depth, rep):
    """all operation sequences to `depth` on fresh objects. Oracle (sound for either reading of such a window's length):
    a read at position p = tell() returns exactly the parent view's bytes from p on, clipped at the request and at the END
    OF THE PARENT VIEW -- never a byte from behind it; positions stay inside [0, declared length]; a call may fail with an
    error (the branch ends there)"""
    n = 0
    for seq in itertools.product(OVERHANG_OPS, repeat=depth):
        st0, val = guarded(lambda: build_overhang(cfg), 5.0)
        case = {"cfg": cfg, "ops": [list(o) for o in seq]}
        if st0 != "ok":
            rep.case(case, klass="window-rejected", nontrivial=True)
            return n
        stream, eff = val
        ok, klass, detail = True, "ok", None
        for op in seq:
            stp, p = guarded(lambda: stream.tell(), 5.0)
            if stp != "ok" or not isinstance(p, int) or not (0 <= p <= cfg["L"]):
                ok, klass, detail = False, "position-outside-window", {"op": op, "observed_pos": repr(p)[:80]}
                break
            st, v = guarded(lambda: impl_apply(stream, op), 5.0)
            n += 1
            if st == "hang":
                ok, klass, detail = False, "hang", {"op": op}
                break
            if st == "exc":
                klass = "raised"
                break
            if op[0] == "read":
                want = eff[p:] if op[1] < 0 else eff[p:p + op[1]]
                if not isinstance(v, (bytes, bytearray)) or bytes(v) != want:
                    ok, klass = False, "bytes-from-outside-the-parent-view" if isinstance(v, (bytes, bytearray)) and len(v) > len(want) else "mismatch:read"
                    detail = {"op": op, "position": p, "expected": repr(want)[:80], "observed": repr(v)[:80]}
                    break
        rep.case(case, ok=ok, klass=klass, nontrivial=True, detail=detail, sig=f"overhang-{cfg['over']}:{klass}")
    return n


class Check(CheckBase):
    id = "C08"
    level = "model_checking"
    title = "Byte-window views behave as read-only files under any seek/read history"
    rule = ("per stream configuration (incl. the MDX wrapper with footers of 0..200 bytes behind its payload, 63 windows built over a parent view that was already moved / read to its end): BFS over {seek(o,whence), read(n), read(-1), tell} from the fresh "
            "object on the real classes, dedup on canonical layer-stack state, to fixed point; plus all "
            "un-deduplicated op sequences to depth d (quick 2 / thorough 3) on fresh objects; every edge "
            "compared with a bytes-slice reference; raw-sector (MDF) view additionally for EVERY sector count 1..159 (thorough "
            "..639) x ragged tail {0,100} with the real constants and 1..63 x tail 0..6 with tiny ones, each under a fixed "
            "probe program (size, whole content, reads across the first / middle / last sector boundaries); seven real-size stacks (40 raw sectors read with single requests of 32..80 KiB, bare and under a window; 20 000-byte "
            "reversed window, 25 000-byte offset window, 6 x 8192 chained file, the Roland shape reversed-over-window-over-4 x 9216 "
            "chained file, 12 raw sectors) probed with runs of SMALL consecutive reads across every multiple of 4096 and of the sector size, and with LONG reads (4096..20 000 bytes and to the end: several internal buffers, two and "
            "more whole sectors inside one read) from 7 start positions; 23 configurations of TWO "
            "views over one shared parent, over two parents with different bytes at the same addresses, or one over the other (two windows, wrapper + window, two chained files of one partition window, the same file "
            "twice, two nested sample stacks, reversed + forward window over one chained file, two windows over one raw-sector view): "
            "BFS over the union of both views' alphabets plus direct seeks / reads on the shared parent, product state, to depth 3 "
            "with a 10-operation alphabet per view (quick) / to fixed point with the full alphabet (thorough; the three widest configurations to depth 4 with the small "
            "alphabet, reported as depth-bounded), every view checked against its own reference; 20 windows whose declared extent hangs over the end of the view they are laid over (window, nested window, chained file, raw-sector view, MDX payload; bytes follow behind in the file): all sequences of 3 (thorough 4) operations, a read at tell() must return the parent view's bytes clipped at the parent view's end and never a byte from behind it; non-trivial = state with cursor on a sector boundary "
            "or at the logical end, or a read edge spanning >=1 sector boundary")
    assumptions = ["views are non-empty; whence always passed explicitly",
                   "reversed view: requested size unaligned but clipped size aligned may be accepted or rejected",
                   "a rejected operation leaves the view where it was; histories continue after a rejection"]

    def shards(self):
        cfgs = configs(self.quick)
        # the two real-size raw-sector graphs (47k / 27k states) close only in the thorough tier;
        # quick explores them to BFS depth 3 and says so in the evidence
        out = [{"mode": "bfs", "cfg": c, "maxdepth": (3 if (c.get("big") and self.quick) else 0)} for c in cfgs]
        depth = 2 if self.quick else 3
        for c in cfgs:
            if c.get("big") and not self.quick:
                d = 2
            else:
                d = depth
            out.append({"mode": "seq", "cfg": c, "depth": d})
        # the raw-sector view for EVERY sector count in a consecutive range (real constants; sizes that are multiples of
        # other sector formats' sizes, e.g. 51 x 2352 = 49 x 2448, lie inside), each with a fixed probe program
        hi = 160 if self.quick else 640
        for lo in range(1, hi, 16):
            for rag in (0, 100):
                out.append({"mode": "sizes", "hbf": [16, 2048, 288], "lo": lo, "hi": min(hi, lo + 16), "rag": rag})
        for rag in range(0, 7):
            out.append({"mode": "sizes", "hbf": [2, 4, 1], "lo": 1, "hi": 64, "rag": rag})
        # long views and LONG READS (more than one internal 4096-byte buffer, two and more whole sectors in the middle of one
        # read): fixed probe programs on real-size stacks
        for k in ("reversed", "file8192", "file9216-reversed", "mdf-real", "offset", "mdf-real-40", "offset-over-mdf-40"):
            out.append({"mode": "long", "kind": k})
        # two views over one shared parent: product graph of both views' histories (plus direct use of the parent)
        for c in overhang_configs():
            out.append({"mode": "overhang", "cfg": c, "depth": 3 if self.quick else 4})
        for c in pair_configs():
            out.append({"mode": "pairbfs", "cfg": c, "maxdepth": 3 if self.quick else (4 if c.get("wide") else 0)})
        return out

    # --
    def run_shard(self, shard, rep: Report):
        if "replay_case" in shard:
            return self._replay(shard["replay_case"], rep)
        if shard["mode"] == "sizes":
            return self._sizes(shard, rep)
        if shard["mode"] == "long":
            return self._long(shard, rep)
        cfg = shard["cfg"]
        if shard["mode"] == "overhang":
            with (MdfConsts(2, 4, 1) if cfg["over"] == "mdf" else contextlib.nullcontext()):
                k = run_overhang(cfg, shard["depth"], rep)
            rep.transitions += k
            rep.traces += len(OVERHANG_OPS) ** shard["depth"]
            return
        with cfg_ctx(cfg):
            # the views are built by the code under test (a late window reads its parent first): a failure there is a finding
            st0, v0 = guarded(lambda: build_pair(cfg) if "pair" in cfg else build(cfg), 10.0)
            if st0 != "ok" and not isinstance(v0, core.HarnessError):
                rep.case({"cfg": cfg, "ops": []}, ok=False, klass="build-failed", nontrivial=True,
                         sig=f"{cfg.get('kind', cfg.get('pair'))}:build-" + ("raised:" + exc_sig(v0) if st0 == "exc" else "hang"),
                         detail={"observed": repr(v0)[:200]})
                return
            if shard["mode"] == "pairbfs":
                self._pair_bfs(cfg, rep, shard.get("maxdepth", 0))
            elif shard["mode"] == "bfs":
                self._bfs(cfg, rep, shard.get("maxdepth", 0))
            else:
                self._seq(cfg, shard["depth"], rep)

    def _fresh(self, cfg):
        stream, content, width = build(cfg)
        return stream, RefFile(content, width), width

    def _nontrivial_state(self, cfg, model):
        s = cfg["s"]
        return model.p == model.L or (model.p % s == 0 and model.p > 0)

    def _bfs(self, cfg, rep, maxdepth=0):
        stream, model, width = self._fresh(cfg)
        ops = alphabet(cfg, model.L)
        seen = {(canon(stream), model.p)}
        frontier = collections.deque([(stream, model, [])])
        states = 1
        transitions = 0
        nt = 0
        max_depth = 0
        bounded = False
        cap = 60000
        while frontier:
            st, mo, hist = frontier.popleft()
            for op in ops:
                try:
                    st2 = copy.deepcopy(st)
                except Exception as e:
                    raise core.HarnessError(f"deepcopy failed: {e}")
                mo2 = mo.clone()
                p_before = mo.p
                ok, klass, detail, dead = step(st2, mo2, op, width)
                transitions += 1
                spans = op[0] == "read" and (mo2.p // cfg["s"]) > (p_before // cfg["s"])
                case = {"cfg": cfg, "ops": hist + [op]}
                rep.case(case, ok=ok, klass=klass, nontrivial=spans or self._nontrivial_state(cfg, mo2),
                         detail=detail, sig=f"{cfg['kind']}:{klass}")
                if dead or not ok:
                    continue
                key = (canon(st2), mo2.p)
                if key not in seen:
                    seen.add(key)
                    states += 1
                    max_depth = max(max_depth, len(hist) + 1)
                    if states > cap:
                        raise core.HarnessError(f"state graph did not close under {cap} states: {cfg}")
                    if maxdepth and len(hist) + 1 >= maxdepth:
                        bounded = True
                        continue
                    frontier.append((st2, mo2, hist + [op]))
        rep.states += states
        rep.transitions += transitions
        rep.traces += transitions
        rep.notes["graphs_depth_bounded" if bounded else "graphs_closed"] += 1
        rep.extra["max_bfs_depth"] = max(rep.extra.get("max_bfs_depth", 0), max_depth)

    def _seq(self, cfg, depth, rep):
        _, model0, width = self._fresh(cfg)
        ops = alphabet(cfg, model0.L)
        # reduced alphabet for the un-deduplicated run: keep boundary-relevant operations
        s, L = cfg["s"], model0.L
        keep = []
        for op in ops:
            if op[0] == "tell":
                continue
            if op[0] == "seek" and op[1] in (0, 1, L - 1, L, s, -1) and (op[2] != 1 or op[1] in (1, -1, s)):
                keep.append(op)
            if op[0] == "read" and op[1] in (0, 1, s, s + 1, L, -1, 2):
                keep.append(op)
        n = 0
        for seq in itertools.product(keep, repeat=depth):
            stream, model, width = self._fresh(cfg)
            okall = True
            for i, op in enumerate(seq):
                ok, klass, detail, dead = step(stream, model, list(op), width)
                n += 1
                if not ok:
                    rep.case({"cfg": cfg, "ops": [list(o) for o in seq[:i + 1]]}, ok=False, klass=klass,
                             detail=detail, sig=f"{cfg['kind']}:{klass}")
                    okall = False
                    break
                if dead:
                    break
            if okall:
                rep.case({"cfg": cfg, "ops": [list(o) for o in seq]}, ok=True, klass="seq-ok",
                         nontrivial=self._nontrivial_state(cfg, model))
        rep.transitions += n
        rep.traces += n
        rep.notes["sequences_undeduplicated"] += len(keep) ** depth

    def _pair_fresh(self, cfg):
        a, b, parent, ca, cb, wa, wb = build_pair(cfg)
        return [a, b, parent], [RefFile(ca, wa), RefFile(cb, wb)], (wa, wb)

    def _pair_ops(self, cfg, models):
        q = self.quick or bool(cfg.get("wide"))
        ops = [["a"] + op for op in pair_alphabet(cfg, models[0].L, q)] + [["b"] + op for op in pair_alphabet(cfg, models[1].L, q)]
        # somebody else uses the shared parent directly (the listing code does): moves it, reads from it
        ops += [["p", "seek", 3, 0], ["p", "read", 2]] if q else [["p", "seek", 0, 0], ["p", "seek", 3, 0], ["p", "seek", 0, 2], ["p", "read", 2]]
        return ops

    def _pair_step(self, objs, models, widths, op):
        if op[0] == "p":
            st, val = guarded(lambda: impl_apply(objs[2], op[1:]), 5.0)
            if st == "hang":
                return False, "hang", {"op": op}, True
            return True, "parent-op", None, False     # whatever the parent answers is not constrained here
        i = 0 if op[0] == "a" else 1
        return step(objs[i], models[i], op[1:], widths[i])

    def _pair_bfs(self, cfg, rep, maxdepth=0):
        objs, models, widths = self._pair_fresh(cfg)
        ops = self._pair_ops(cfg, models)
        key0 = (canon(objs[0]), canon(objs[1]), canon(objs[2]), models[0].p, models[1].p)
        seen = {key0}
        frontier = collections.deque([(objs, models, [])])
        states, transitions, max_depth = 1, 0, 0
        bounded = False
        cap = 60000
        while frontier:
            ob, mo, hist = frontier.popleft()
            for op in ops:
                try:
                    ob2 = copy.deepcopy(ob)       # one deepcopy of the list keeps the parent shared between the copies
                except Exception as e:
                    raise core.HarnessError(f"deepcopy failed: {e}")
                mo2 = [m.clone() for m in mo]
                ok, klass, detail, dead = self._pair_step(ob2, mo2, widths, op)
                transitions += 1
                other_moved = bool(hist) and hist[-1][0] != op[0]
                rep.case({"cfg": cfg, "ops": hist + [op]}, ok=ok, klass="pair:" + klass, nontrivial=other_moved, detail=detail,
                         sig=f"pair-{cfg['pair']}:{klass}")
                if dead or not ok:
                    continue
                key = (canon(ob2[0]), canon(ob2[1]), canon(ob2[2]), mo2[0].p, mo2[1].p)
                if key not in seen:
                    seen.add(key)
                    states += 1
                    max_depth = max(max_depth, len(hist) + 1)
                    if states > cap:
                        raise core.HarnessError(f"pair graph did not close under {cap} states: {cfg}")
                    if maxdepth and len(hist) + 1 >= maxdepth:
                        bounded = True
                        continue
                    frontier.append((ob2, mo2, hist + [op]))
        rep.states += states
        rep.transitions += transitions
        rep.traces += transitions
        rep.notes["pair_graphs_depth_bounded" if bounded else "pair_graphs_closed"] += 1
        rep.extra.setdefault("pair_graph_sizes", "")
        rep.extra["pair_graph_sizes"] = f"{cfg['pair']}:{states}"
        rep.extra["max_bfs_depth"] = max(rep.extra.get("max_bfs_depth", 0), max_depth)

    def _long_build(self, kind):
        S, SEC, F, MDF = _mods()
        if kind == "reversed":
            raw = base_bytes(20000 + 3)
            return S.StreamReversed(io.BytesIO(raw), 20000, sample_width=2), rev_words(raw[:20000], 2), 2, 4096
        if kind == "offset":
            raw = base_bytes(30000)
            return S.StreamOffset(io.BytesIO(raw), 25000, 1234), raw[1234:1234 + 25000], 0, 4096
        if kind == "file8192":
            chain = [5, 1, 4, 0, 3, 2]
            raw = base_bytes(8192 * 6 + 1)
            return F.FileStream(io.BytesIO(raw), 8192, list(chain)), chain_logical(raw, 8192, chain), 0, 8192
        if kind == "file9216-reversed":
            # the Roland shape: sample-reversed window over a window over a cluster-chained file
            chain = [3, 0, 2, 1]
            raw = base_bytes(0x2400 * 4 + 2)
            seg = chain_logical(raw, 0x2400, chain)
            off, L = 100, 30000
            inner = S.StreamOffset(F.FileStream(io.BytesIO(raw), 0x2400, list(chain)), L, off)
            return S.StreamReversed(inner, L, sample_width=2), rev_words(seg[off:off + L], 2), 2, 0x2400
        if kind == "mdf-real":
            raw = base_bytes(2352 * 12)
            return MDF.MdfStream(io.BytesIO(raw)), mdf_logical(raw, 16, 2048, 288), 0, 2048
        if kind == "mdf-real-40":
            # 40 raw sectors: single reads of 32 KiB .. 80 KiB (more than 16 sectors in one request), from unaligned positions
            raw = base_bytes(2352 * 40)
            return MDF.MdfStream(io.BytesIO(raw)), mdf_logical(raw, 16, 2048, 288), 0, 2048
        if kind == "offset-over-mdf-40":
            raw = base_bytes(2352 * 40 + 100)
            lg = mdf_logical(raw[:2352 * 40], 16, 2048, 288)
            return S.StreamOffset(MDF.MdfStream(io.BytesIO(raw)), 70000, 3001), lg[3001:73001], 0, 2048
        raise core.HarnessError(kind)

    def _long(self, shard, rep):
        kind = shard["kind"]
        stream, content, width, s_ = self._long_build(kind)
        L = len(content)
        sizes = sorted({4096, 4098, 8192, 8194, 3 * s_, 3 * s_ + 2, 2 * s_ + 4096, 16384, 18434, 20000, L, L + 2, -1} |
                       ({32766, 32768, 32770, 16 * s_ + 1, 17 * s_, 33 * s_ + 5, 65536} if L > 66000 else set()))
        starts = sorted({0, 2, s_ - 2, s_, s_ + 2, 4096, L - 8194 if L > 8194 else 0})
        prog = []
        for o in starts:
            for n in sizes:
                prog += [["seek", o, 0], ["read", n]]
        # SMALL consecutive reads that walk across the internal 4096-byte buffer size and across sector ends (fields of a
        # few bytes read one after the other, the way headers and tables are parsed)
        for edge in sorted({4096, 8192, 12288, s_, 2 * s_}):
            if edge + 16 >= L:
                continue
            for back in (2, 4, 6, 10):
                for n in ((2, 4) if width == 2 else (1, 3, 5)):
                    prog += [["seek", 0, 0], ["read", n], ["seek", edge - back, 0]] + [["read", n]] * 6
        cfg = {"kind": "long:" + kind, "s": s_}
        model = RefFile(content, width)
        for i, op in enumerate(prog):
            ok, klass, detail, dead = step(stream, model, op, width)
            rep.transitions += 1
            if not ok:
                rep.case({"cfg": cfg, "ops": prog[max(0, i - 1):i + 1], "long": kind}, ok=False, klass=klass, detail=detail, sig=f"long-{kind}:{klass}")
                return
            if op[0] == "read":
                rep.case({"cfg": cfg, "ops": prog[i - 1:i + 1], "long": kind}, klass="long-read-ok", nontrivial=True)
        rep.states += len(prog)
        rep.traces += 1

    def _sizes(self, shard, rep):
        h, b, f = shard["hbf"]
        for n in range(shard["lo"], shard["hi"]):
            cfg = {"kind": "mdf", "hbf": [h, b, f], "n": n, "rag": shard["rag"], "s": b}
            L = b * n
            prog = [["seek", 0, 2], ["tell"], ["seek", 0, 0], ["read", -1], ["seek", L - 1, 0], ["read", 2]]
            for k in sorted({0, 1, n // 2, n - 2, n - 1} & set(range(n))):
                prog += [["seek", k * b, 0], ["read", 3], ["seek", max(0, k * b - 1), 0], ["read", b + 2]]
            with cfg_ctx(cfg):
                stream, model, width = self._fresh(cfg)
                bad = False
                for i, op in enumerate(prog):
                    ok, klass, detail, dead = step(stream, model, op, width)
                    rep.transitions += 1
                    if not ok:
                        rep.case({"cfg": cfg, "ops": prog[:i + 1]}, ok=False, klass=klass, detail=detail, sig=f"mdf-sizes:{klass}")
                        bad = True
                        break
                    if dead:
                        break
                if not bad:
                    rep.case({"cfg": cfg, "ops": prog}, klass="sizes-ok", nontrivial=n > 1)
            rep.states += 1
            rep.traces += 1

    def _replay(self, case, rep):
        cfg = case["cfg"]
        if "long" in case:
            sub = Report()
            self._long({"kind": case["long"]}, sub)
            rep.case(case, ok=not sub.viol_count, klass="long", detail=sub.violations[0]["detail"] if sub.violations else None,
                     sig=sub.violations[0]["sig"] if sub.violations else "long")
            return
        if "over" in cfg:
            with (MdfConsts(2, 4, 1) if cfg["over"] == "mdf" else contextlib.nullcontext()):
                sub = Report()
                run_overhang(cfg, len(case["ops"]), sub)
            hit = [v for v in sub.violations if v["case"]["ops"] == case["ops"]]
            rep.case(case, ok=not hit, klass="overhang", detail=hit[0]["detail"] if hit else None, sig=hit[0]["sig"] if hit else "overhang")
            return
        if "pair" in cfg:
            with cfg_ctx(cfg):
                objs, models, widths = self._pair_fresh(cfg)
                for op in case["ops"]:
                    ok, klass, detail, dead = self._pair_step(objs, models, widths, op)
                    if not ok:
                        rep.case(case, ok=False, klass="pair:" + klass, detail=detail, sig=f"pair-{cfg['pair']}:{klass}")
                        return
                    if dead:
                        break
                rep.case(case, ok=True)
            return
        with cfg_ctx(cfg):
            st0, v0 = guarded(lambda: self._fresh(cfg), 10.0)
            if st0 != "ok":
                rep.case(case, ok=False, klass="build-failed", detail={"observed": repr(v0)[:200]}, sig=f"{cfg['kind']}:build-failed")
                return
            stream, model, width = v0
            for i, op in enumerate(case["ops"]):
                ok, klass, detail, dead = step(stream, model, op, width)
                if not ok:
                    rep.case(case, ok=False, klass=klass, detail=detail, sig=f"{cfg['kind']}:{klass}")
                    return
                if dead:
                    break
            rep.case(case, ok=True)

    def finalize(self, rep):
        if rep.states < 100:
            raise core.HarnessError("vacuous exploration: fewer than 100 states")
