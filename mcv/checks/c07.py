"""C07 -- allocation chains resolve to exactly the linked sectors, and always terminate.

Complete enumeration of (a) all link tables, (b) all raw AKAI SAT word tables, (c) all raw
Roland FAT word tables over a small number of sectors, x every start sector, on the real
resolvers; (d) a byte stream over every well-formed chain.  Non-termination is detected by
deterministic step budgets (counting list proxies handed in as table data).
"""
import io
import itertools
import types

from mcv.engine import core
from mcv.engine.core import CheckBase, Report, BudgetExceeded, exc_sig, guarded
from mcv.ref import chain as RC


class CountingList(list):
    """list whose element reads are counted; raises BudgetExceeded beyond the budget."""
    __slots__ = ("reads", "budget")

    def __getitem__(self, i):
        self.reads += 1
        if self.reads > self.budget:
            raise BudgetExceeded("step budget exceeded")
        return list.__getitem__(self, i)


def counting(lst, budget):
    c = CountingList(lst)
    c.reads = 0
    c.budget = budget
    return c


def _fat_mod():
    from smpl_extract.util import fat as F
    return F


# ----------------------------------------------------------------------------- (a) link tables
def run_links(n, prefix, rep, steps):
    F = _fat_mod()
    alpha = [-1] + list(range(0, n + 1))
    rest = n - len(prefix)
    budget = 4 * n + 8
    for tail in itertools.product(alpha, repeat=rest):
        T = list(prefix) + list(tail)
        links = [F.SectorLink(next=0, end=True) if w < 0 else F.SectorLink(next=w, end=False) for w in T]
        for s in range(0, n + 1):
            exp, why = RC.link_chain(T, s)
            cl = counting(links, budget)
            table = F.FileAllocationTable(None, n, cl)
            try:
                got = table.get_path(s)
                st = "ret"
            except BudgetExceeded:
                st, got = "hang", None
            except Exception as e:  # noqa
                st, got = "exc", e
            steps[0] += cl.reads
            case = {"seam": "links", "n": n, "table": T, "start": s}
            nt = (exp is not None and len(exp) >= 2) or (exp is None and why != "start-out-of-range")
            if st == "hang":
                rep.case(case, ok=False, klass="hang", nontrivial=nt, sig="links:hang:" + why,
                         detail={"reference": why, "observed": f"more than {budget} table reads"})
            elif exp is not None:
                if st == "ret" and list(got) == exp:
                    rep.case(case, klass="exact", nontrivial=nt)
                else:
                    rep.case(case, ok=False, klass="wrong-chain", nontrivial=nt, sig="links:wrong-chain",
                             detail={"expected": exp, "observed": repr(got)[:120]})
            else:
                rep.case(case, klass="malformed:" + why + ":" + ("raised" if st == "exc" else "shortened"), nontrivial=nt)


# ----------------------------------------------------------------------------- (b) AKAI raw SAT
def akai_adapter():
    from smpl_extract.akai import sat as SAT
    from construct.core import Int16ul
    return SAT.SegmentAllocationTableAdapter(None, Int16ul[1])


def akai_alpha(n):
    # (0x4001 / 0xBFFF: out-of-range words that share their two top bits with the reserved flags)
    return [RC.A_FREE, RC.A_END, RC.A_RES1, RC.A_RES2] + list(range(1, n)) + [n, 0x4001, 0xBFFF]


def run_akai(n, prefix, rep, steps):
    ad = akai_adapter()
    alpha = akai_alpha(n)
    rest = n - len(prefix)
    dbudget = 6 * n + 8
    gbudget = 4 * n + 8
    for tail in itertools.product(alpha, repeat=rest):
        T = list(prefix) + list(tail)
        blk = counting(T, dbudget)
        try:
            table = ad._decode(blk, {}, "")
            dst = "ok"
        except BudgetExceeded:
            dst, table = "hang", None
        except Exception as e:  # noqa
            dst, table = "exc", e
        steps[0] += blk.reads
        if dst == "hang":
            rep.case({"seam": "akai_sat", "n": n, "table": T, "start": None}, ok=False, klass="decode-hang",
                     nontrivial=True, sig="akai:decode-hang", detail={"observed": f"more than {dbudget} SAT word reads"})
            continue
        for s in range(n):
            exp, why = RC.akai_chain(T, s)
            case = {"seam": "akai_sat", "n": n, "table": T, "start": s}
            nt = (exp is not None and len(exp) >= 2) or (exp is None)
            if dst == "exc":
                # table-level error: acceptable only when the table contains a malformation
                if exp is not None and all(RC.akai_chain(T, k)[0] is not None or T[k] == RC.A_FREE for k in range(n)):
                    rep.case(case, ok=False, klass="decode-raised-on-clean-table", nontrivial=nt,
                             sig="akai:decode-raised:" + exc_sig(table), detail={"observed": repr(table)[:200]})
                elif exp is not None:
                    rep.case(case, klass="table-rejected(malformed elsewhere)", nontrivial=nt)
                else:
                    rep.case(case, klass="malformed:" + why + ":table-rejected", nontrivial=nt)
                continue
            cl = counting(table.sector_links, gbudget)
            table.sector_links = cl
            try:
                got = table.get_path(s)
                st = "ret"
            except BudgetExceeded:
                st, got = "hang", None
            except Exception as e:  # noqa
                st, got = "exc", e
            steps[0] += cl.reads
            table.sector_links = list.copy(cl)
            if st == "hang":
                rep.case(case, ok=False, klass="hang", nontrivial=nt, sig="akai:hang:" + why,
                         detail={"reference": why, "observed": f"more than {gbudget} table reads"})
            elif exp is not None:
                if st == "ret" and list(got) == exp:
                    rep.case(case, klass="exact" if why == "ok" else "exact-run", nontrivial=nt)
                else:
                    rep.case(case, ok=False, klass="wrong-chain", nontrivial=nt, sig="akai:wrong-chain:" + why,
                             detail={"expected": exp, "observed": repr(got)[:120]})
            else:
                rep.case(case, klass="malformed:" + why + ":" + ("raised" if st == "exc" else "shortened"), nontrivial=nt)


# ----------------------------------------------------------------------------- (c) Roland raw FAT
ROLAND_SMALL = 16
R_ALPHA = [0, 1, RC.R_ERR, 0xFFF8, 0xFFFF, 2, 3, 4, 5, 6, 7, 16]


class RolandSmall:
    """Rebind FAT_NUM_ENTRIES from the outside so that the table space closes."""

    def __enter__(self):
        from smpl_extract.roland.s7xx import fat as RF
        self.RF = RF
        self.saved = RF.FAT_NUM_ENTRIES
        RF.FAT_NUM_ENTRIES = ROLAND_SMALL
        return RF

    def __exit__(self, *a):
        self.RF.FAT_NUM_ENTRIES = self.saved


def roland_container(T, raw=None):
    """the metadata words overlay the table (word 0: id, word 1: free-cluster count, last two words: version flags)"""
    raw = T if raw is None else raw
    return types.SimpleNamespace(
        fat_entries=T,
        metadata=types.SimpleNamespace(fat_id=raw[0], num_unused_clusters=raw[1],
                                       version_flag_1=raw[len(raw) - 2], version_flag_2=raw[len(raw) - 1]),
        stream_size=0, fat_data_stream=None)


def roland_clean(T, lo, hi):
    """No malformation anywhere in the scanned region: every used cell walks to an end marker and
    no cluster is the target of two entries."""
    targets = {}
    for j in range(2, len(T)):
        v = T[j]
        if v in (RC.R_FREE, RC.R_RES) or v >= RC.R_END_MIN:
            continue
        if v == RC.R_ERR:
            return False
        if v in targets:
            return False
        targets[v] = j
    for i in range(lo, hi):
        if T[i] in (RC.R_FREE, RC.R_RES):
            continue
        ch, why = RC.roland_chain(T, i)
        if ch is None and why != "cross-link":
            return False
    return True


def roland_table(cells, hdr=0, vflags=(0xFFFF, 0xFFFF)):
    T = [0xFFFA, hdr] + list(cells) + [0xFFF8] * (ROLAND_SMALL - 2 - len(cells))
    T[ROLAND_SMALL - 2] = vflags[0]
    T[ROLAND_SMALL - 1] = vflags[1]
    return T


# redundant header words: free-cluster count (consistent, stale, garbage) and the three accepted version-flag pairs
R_HDR = [1, 2, 3, 4, 5, ROLAND_SMALL - 1, ROLAND_SMALL, 0xFFF1, 0xFFFF]      # (2..5: the count equals a cluster number in use)
R_VFLAGS = [(0xFFFF, 0xFFFF), (0xFFFE, 0xFFFF), (0xFFFF, 0xFFFE), (0xFFFE, 0xFFFE)]


def check_roland_table(RF, T, N, lo, hi, rep, steps, seam, embed=None):
    dbudget = 8 * N + 64
    gbudget = 4 * N + 8
    blk = counting(T, dbudget)
    ad = RF.FatAreaAdapter(RF.FatAreaStruct)
    try:
        area = ad._decode(roland_container(blk, T), {}, "")
        dst = "ok"
    except BudgetExceeded:
        dst, area = "hang", None
    except Exception as e:  # noqa
        dst, area = "exc", e
    steps[0] += blk.reads
    short = T if N <= 64 else embed
    if dst == "hang":
        rep.case({"seam": seam, "table": short, "start": None}, ok=False, klass="decode-hang", nontrivial=True,
                 sig="roland:decode-hang", detail={"observed": f"more than {dbudget} FAT word reads"})
        return "hang"
    clean = roland_clean(T, lo, hi)
    for s in range(lo, hi + 1):
        exp, why = RC.roland_chain(T, s)
        case = {"seam": seam, "table": short, "start": s}
        nt = (exp is not None and len(exp) >= 2) or exp is None
        if dst == "exc":
            if clean:
                rep.case(case, ok=False, klass="decode-raised-on-clean-table", nontrivial=nt,
                         sig="roland:decode-raised:" + exc_sig(area), detail={"observed": repr(area)[:200]})
            else:
                rep.case(case, klass="table-rejected", nontrivial=nt)
            continue
        table = area.fat
        cl = counting(table.sector_links, gbudget)
        table.sector_links = cl
        try:
            got = table.get_path(s)
            st = "ret"
        except BudgetExceeded:
            st, got = "hang", None
        except Exception as e:  # noqa
            st, got = "exc", e
        steps[0] += cl.reads
        table.sector_links = list.copy(cl)
        if st == "hang":
            rep.case(case, ok=False, klass="hang", nontrivial=nt, sig="roland:hang:" + why,
                     detail={"reference": why, "observed": f"more than {gbudget} table reads"})
        elif exp is not None:
            if st == "ret" and list(got) == exp:
                rep.case(case, klass="exact", nontrivial=nt)
            else:
                rep.case(case, ok=False, klass="wrong-chain", nontrivial=nt, sig="roland:wrong-chain",
                         detail={"expected": exp, "observed": repr(got)[:120]})
        else:
            rep.case(case, klass="malformed:" + why + ":" + ("raised" if st == "exc" else "shortened"), nontrivial=nt)
    return "exc" if dst == "exc" else "ok"


def run_roland(prefix, rep, steps, ncells=5):
    with RolandSmall() as RF:
        rest = ncells - len(prefix)
        for tail in itertools.product(R_ALPHA, repeat=rest):
            T = roland_table(list(prefix) + list(tail))
            check_roland_table(RF, T, ROLAND_SMALL, 2, 7, rep, steps, "roland_fat16")


def run_roland_hdr(prefix, rep, steps, ncells):
    """the same closed enumeration with every header word / version-flag pair (they must not influence any chain)"""
    with RolandSmall() as RF:
        rest = ncells - len(prefix)
        for tail in itertools.product(R_ALPHA, repeat=rest):
            for hdr in R_HDR:
                for vf in R_VFLAGS:
                    T = roland_table(list(prefix) + list(tail), hdr, vf)
                    check_roland_table(RF, T, ROLAND_SMALL, 2, 2 + ncells, rep, steps, "roland_fat16")


def run_roland_embedded(cells_list, rep, steps, hdrs=(0, 2, 3, 0xFFF1, 0xFFFF)):
    """Conformance of the shrunken table to the real one: the same cell patterns embedded in a
    real 65536-entry FAT area and parsed through FatAreaParser.parse."""
    import struct
    from smpl_extract.roland.s7xx import fat as RF
    N = RF.FAT_NUM_ENTRIES
    hangs = 0
    for cells, hdr in [(c, h) for c in cells_list for h in hdrs]:
        if hangs >= 2:
            # every further hang would cost the full budget: the shard's verdict is already decided
            rep.notes["embedded_skipped_after_hangs"] += 1
            continue
        # out-of-range value 16 of the small alphabet has no equivalent (every u16 is in range): map to 7 -> 7 is 'end'
        T = [0xFFFA, hdr] + [c for c in cells] + [0xFFF8] * 9 + [0] * (N - 2 - len(cells) - 9 - 2) + [0xFFFF, 0xFFFF]
        raw = struct.pack("<%dH" % N, *T)

        def parse():
            return RF.FatAreaParser.parse(raw + b"\x00" * 16)
        st, area = guarded(parse, 6.0)
        case = {"seam": "roland_fat65536", "cells": list(cells), "hdr": hdr, "start": None}
        if st == "hang":
            hangs += 1
            rep.case(case, ok=False, klass="decode-hang", nontrivial=True, sig="roland65536:decode-hang",
                     detail={"observed": "cpu budget exceeded while parsing a real-size FAT"})
            continue
        clean = roland_clean(T, 2, 2 + len(cells))
        if st == "exc":
            if clean:
                rep.case(case, ok=False, klass="decode-raised-on-clean-table", nontrivial=True,
                         sig="roland65536:decode-raised:" + exc_sig(area), detail={"observed": repr(area)[:200]})
            else:
                rep.case(case, klass="table-rejected", nontrivial=True)
            continue
        for s in range(2, 2 + len(cells)):
            exp, why = RC.roland_chain(T, s)
            case = {"seam": "roland_fat65536", "cells": list(cells), "hdr": hdr, "start": s}
            st2, got = guarded(lambda: area.fat.get_path(s), 6.0)
            if st2 == "hang":
                rep.case(case, ok=False, klass="hang", nontrivial=True, sig="roland65536:hang:" + why,
                         detail={"reference": why})
            elif exp is not None:
                if st2 == "ok" and list(got) == exp:
                    rep.case(case, klass="exact", nontrivial=len(exp) >= 2)
                else:
                    rep.case(case, ok=False, klass="wrong-chain", nontrivial=True, sig="roland65536:wrong-chain",
                             detail={"expected": exp, "observed": repr(got)[:120]})
            else:
                rep.case(case, klass="malformed:" + why, nontrivial=True)


# ----------------------------------------------------------------------------- (f) long chains in real-size tables
LONG_LENGTHS = [1, 2, 3, 64, 500, 900, 950, 990, 1000, 1010, 1100, 2000, 4000, 8000]
LONG_LAYOUTS = ["up", "down", "stride"]


def long_cells(layout, L, lo, M):
    """L distinct cells of lo..lo+M-1 in visiting order"""
    if layout == "up":
        return [lo + k for k in range(L)]
    if layout == "down":
        return [lo + L - 1 - k for k in range(L)]
    # stride walk over a prime-sized region (a permutation): fragmented, forward and backward links alternate
    P = 8191 if M > 8191 else 1021
    return [lo + (k * 3571) % P for k in range(L)] if L <= P else [lo + k for k in range(L)]


def run_long(fmt, layout, rep, steps):
    """the chain LENGTH as an input dimension: one well-formed chain of L sectors (and the same chain closed into a cycle)
    in a table of the real size, decoded by the real adapters"""
    import struct
    if fmt == "akai":
        from smpl_extract.akai.data_types import AKAI_SAT_ENTRY_CNT as N
        lo, M, lengths = 1, N - 1, LONG_LENGTHS + [N - 1]
    else:
        from smpl_extract.roland.s7xx import fat as RF
        N = RF.FAT_NUM_ENTRIES
        lo, M, lengths = 2, N - 2 - 9 - 2, LONG_LENGTHS + [16000, 32000, N - 2 - 9 - 2]
    for L in lengths:
        for closed in (False, True):
            cells = long_cells(layout, L, lo, M)
            assert len(set(cells)) == L and max(cells) < lo + M
            case = {"seam": "long_" + fmt, "layout": layout, "length": L, "closed": closed, "start": cells[0]}
            if fmt == "akai":
                T = [RC.A_FREE] * N
                for a, b in zip(cells, cells[1:]):
                    T[a] = b
                T[cells[-1]] = cells[0] if closed else RC.A_END
                if closed and L == 1:
                    continue        # (a self-link is part of the small tables)
                ad = akai_adapter()

                def go():
                    return list(ad._decode(T, {}, "").get_path(cells[0]))
            else:
                T = [0xFFFA, 0] + [0] * (N - 4) + [0xFFFF, 0xFFFF]
                for k in range(N - 11, N - 2):
                    T[k] = 0xFFF8
                for a, b in zip(cells, cells[1:]):
                    T[a] = b
                T[cells[-1]] = cells[0] if closed else 0xFFF8
                if closed and L == 1:
                    continue
                raw = struct.pack("<%dH" % N, *T) + b"\x00" * 16

                def go():
                    return list(RF.FatAreaParser.parse(raw).fat.get_path(cells[0]))
            st, got = guarded(go, 20.0)
            steps[0] += L
            if st == "hang":
                rep.case(case, ok=False, klass="hang", nontrivial=True, sig=f"long_{fmt}:hang", detail={"observed": "cpu budget exceeded"})
            elif closed:
                # a cycle: any reported error or shortened chain is acceptable; termination is what is judged
                rep.case(case, klass="cycle:" + ("raised" if st == "exc" else "shortened"), nontrivial=True)
            elif st == "ok" and got == cells:
                rep.case(case, klass="exact-long", nontrivial=L >= 2)
            else:
                rep.case(case, ok=False, klass="wrong-chain", nontrivial=True,
                         sig=f"long_{fmt}:" + ("raised:" + exc_sig(got) if st == "exc" else "wrong-chain"),
                         detail={"length": L, "observed": repr(got)[:160]})


# ----------------------------------------------------------------------------- (g) tables as the image parser hands them out
def run_image_tables(rep, steps):
    """AKAI images with two partitions, parsed by the real image parser: the table of EACH partition resolves the chains of
    its own files, and the streams it hands out deliver that partition's sectors (several images in one process)"""
    from mcv.gen import akai as A
    from mcv.engine import tree
    for perm in itertools.permutations((4, 5, 6)):
        for perm_b in ((4, 5, 6), (6, 4, 5), (5, 6, 4)):
            spec = {"parts": [{"vols": [{"name": "VA", "dir": [3], "files": [{"name": "FA", "n": A.words_for_sectors(3), "chain": list(perm), "seq": 1}]}]},
                              {"vols": [{"name": "VB", "dir": [3], "files": [{"name": "FB", "n": A.words_for_sectors(3), "chain": list(perm_b), "seq": 2}]}]}]}
            img, layout = A.build_akai(A.model_from_spec(spec))
            st, image = guarded(lambda: tree.open_image(img), 20.0)
            case = {"seam": "image_tables", "chains": [list(perm), list(perm_b)], "start": None}
            if st != "ok":
                rep.case(case, ok=False, klass="open-failed", nontrivial=True, sig="image_tables:open-" + ("raised:" + exc_sig(image) if st == "exc" else "hang"))
                continue
            for pi, chain in enumerate((perm, perm_b)):
                P = layout[f"p{pi}.size"][0]
                want = b"".join(img[P + c * A.SECTOR:P + (c + 1) * A.SECTOR] for c in chain)

                def go():
                    image.set_routines({"make_safe_names": image.make_safe_names_routine, "make_export_names": image.make_export_names_routine})
                    # (the partition keeps the decoded table it was built with; its `sat` property is not usable in the
                    # unchanged tree and not used by the tool)
                    t = image.children[pi]._f_sat
                    sat = t() if callable(t) else t
                    return list(sat.get_path(chain[0])), sat.get_segment(chain[0]).read(-1)
                st2, got = guarded(go, 20.0)
                steps[0] += 3
                c2 = dict(case, partition=pi, start=chain[0])
                if st2 == "ok" and got[0] == list(chain) and got[1] == want:
                    rep.case(c2, klass="image-table-exact", nontrivial=list(chain) != sorted(chain))
                else:
                    rep.case(c2, ok=False, klass="image-table-wrong", nontrivial=True,
                             sig="image_tables:" + ("raised:" + exc_sig(got) if st2 == "exc" else ("hang" if st2 == "hang" else ("wrong-chain" if got[0] != list(chain) else "stream-delivers-foreign-sectors"))),
                             detail={"partition": pi, "expected_chain": list(chain), "observed": repr(got[0] if st2 == "ok" else got)[:120]})


def run_image_tables_roland(rep, steps):
    """Roland images through the real image parser: the FAT the image object holds resolves every file's chain and its
    streams deliver exactly those clusters -- for chains over the LAST clusters the image file holds, too"""
    from mcv.gen import roland as R
    from mcv.engine import tree
    for top in (5, 6):
        for k in (1, 2, 3):
            for ch in itertools.permutations(range(2, top + 1), k):
                if top not in ch and top - 1 not in ch and k > 1:
                    continue
                smp = {0: {"name": "S", "chain": list(ch), "points": [0, 0, 99, 0, 9], "mode": 0, "seq": 1}}
                if top not in ch:
                    smp[1] = {"name": "T", "chain": [top], "points": [0, 0, 9, 0, 9], "mode": 0, "seq": 2}      # (fixes the image size)
                model = {"volumes": [{"name": "VOL", "perfs": [0]}], "performances": {0: {"name": "PERF", "patches": [0]}},
                         "patches": {0: {"name": "PATCH", "partials": [0]}}, "partials": {0: {"name": "PART", "samples": sorted(smp)}},
                         "samples": smp}
                img = R.build_roland(model)[0]
                want = b"".join(img[R.DATA_FAT_OFF + c * R.CLUSTER:R.DATA_FAT_OFF + (c + 1) * R.CLUSTER] for c in ch)
                case = {"seam": "image_tables_roland", "chain": list(ch), "last_cluster": top, "start": ch[0]}

                def go():
                    image = tree.open_image(img)
                    return list(image.fat.get_path(ch[0])), image.fat.get_file(ch[0]).read(-1)
                st, got = guarded(go, 20.0)
                steps[0] += k
                if st == "ok" and got[0] == list(ch) and got[1] == want:
                    rep.case(case, klass="image-table-exact", nontrivial=k > 1)
                else:
                    rep.case(case, ok=False, klass="image-table-wrong", nontrivial=True,
                             sig="image_tables_roland:" + ("raised:" + exc_sig(got) if st == "exc" else ("hang" if st == "hang" else ("wrong-chain" if got[0] != list(ch) else "stream-wrong"))),
                             detail={"expected_chain": list(ch), "last_cluster_of_the_image": top, "observed": repr(got[0] if st == "ok" else got)[:120],
                                     "stream_length": len(got[1]) if st == "ok" else None, "expected_length": len(want)})


# ----------------------------------------------------------------------------- (d) streams over chains
def run_streams(n, rep):
    F = _fat_mod()
    sector = 4
    content = bytes((i * 7 + 3) % 251 for i in range(sector * n + 3))
    for k in range(1, n + 1):
        for ch in itertools.permutations(range(n), k):
            exp = b"".join(content[c * sector:(c + 1) * sector] for c in ch)

            def go():
                fs = F.FileStream(io.BytesIO(content), sector, list(ch))
                return fs.readall()
            st, got = guarded(go, 5.0)
            case = {"seam": "filestream", "n": n, "chain": list(ch)}
            if st == "ok" and got == exp:
                rep.case(case, klass="stream-exact", nontrivial=k >= 2)
            else:
                rep.case(case, ok=False, klass="stream-wrong", nontrivial=True, sig="stream:" + st,
                         detail={"expected": exp.hex(), "observed": repr(got)[:120]})


def run_table_streams(n, rep):
    """the byte streams the TABLES hand out (AKAI get_segment, Roland get_file) for every injective chain of <= n sectors:
    every resolution of one chain yields the whole concatenation, however often the chain was resolved before and however the
    handles are used in turn (a handle is a stream with its own position)"""
    from smpl_extract.akai import sat as SAT
    from smpl_extract.akai.data_types import AKAI_SECTOR_SIZE as AS
    from smpl_extract.roland.s7xx import fat as RF
    from construct.core import Int16ul
    # (a link value of 0 means 'free' in an AKAI table: sector 0 can only be the head of a chain, so the chains run over 1..n)
    acontent = b"".join(bytes([(7 * c + 3) % 251]) * 16 + bytes((i * 5 + c) % 256 for i in range(AS - 16)) for c in range(n + 1))
    for k in range(1, n + 1):
        for ch in itertools.permutations(range(1, n + 1), k):
            T = [RC.A_FREE] * (n + 1)
            for a, b in zip(ch, ch[1:]):
                T[a] = b
            T[ch[-1]] = RC.A_END
            exp = b"".join(acontent[c * AS:(c + 1) * AS] for c in ch)

            def go():
                table = SAT.SegmentAllocationTableAdapter(io.BytesIO(acontent), Int16ul[1])._decode(list(T), {}, "")
                h1 = table.get_segment(ch[0])
                a = h1.read(-1)
                h2 = table.get_segment(ch[0])
                b = h2.read(-1)
                h3, h4 = table.get_segment(ch[0]), table.get_segment(ch[0])
                c1 = h3.read(100)
                c2 = h4.read(AS + 1)
                c3 = h3.read(50)
                return a, b, c1, c2, c3
            st, got = guarded(go, 10.0)
            case = {"seam": "akai_segments", "n": n, "chain": list(ch)}
            want = (exp, exp, exp[:100], exp[:AS + 1], exp[100:150])
            if st == "ok" and tuple(got) == want:
                rep.case(case, klass="segments-exact", nontrivial=True)
            else:
                which = [i for i in range(5) if st != "ok" or got[i] != want[i]]
                rep.case(case, ok=False, klass="segment-stream-wrong", nontrivial=True, sig="akai-segments:" + st,
                         detail={"resolution_or_read_that_differs": which[:3], "observed": repr(got)[:100] if st != "ok" else
                                 [len(x) for x in got], "expected_lengths": [len(x) for x in want]})
    # Roland: chains over clusters 2..n+1 of a small data area
    CL = 0x2400
    rcontent = b"".join(bytes([(11 * c + 1) % 251]) * 16 + bytes((i * 3 + c) % 256 for i in range(CL - 16)) for c in range(n + 2))
    for k in range(1, min(n, 4) + 1):
        for ch in itertools.permutations(range(2, n + 2), k):
            links = [None] * (n + 2)
            exp = b"".join(rcontent[c * CL:(c + 1) * CL] for c in ch)

            def go():
                from smpl_extract.util.fat import SectorLink, add_to_sector_links
                sl = [SectorLink()] * (n + 2)
                add_to_sector_links(list(ch), sl)
                table = RF.RolandFileAllocationTable(io.BytesIO(rcontent), n + 2, sl)
                a = table.get_file(ch[0]).read(-1)
                b = table.get_file(ch[0]).read(-1)
                h3, h4 = table.get_file(ch[0]), table.get_file(ch[0], 0)
                c1 = h3.read(100)
                c2 = h4.read(CL + 1)
                c3 = h3.read(50)
                # a file that starts behind its first cluster_offset clusters (Roland samples carry `cluster_top`):
                # the tail of the SAME table walk, whatever the allocation
                tails = tuple(table.get_file(ch[0], o).read(-1) for o in range(1, len(ch)))
                return (a, b, c1, c2, c3) + tails
            st, got = guarded(go, 10.0)
            case = {"seam": "roland_files", "n": n, "chain": list(ch)}
            want = (exp, exp, exp[:100], exp[:CL + 1], exp[100:150]) + tuple(exp[o * CL:] for o in range(1, len(ch)))
            if st == "ok" and tuple(got) == want:
                rep.case(case, klass="files-exact", nontrivial=True)
            else:
                rep.case(case, ok=False, klass="file-stream-wrong", nontrivial=True, sig="roland-files:" + st,
                         detail={"observed": repr(got)[:100] if st != "ok" else [len(x) for x in got], "expected_lengths": [len(x) for x in want]})


def run_high_clusters(rep):
    """Roland files over the HIGHEST cluster numbers a table can hold (16-bit numbers with the top bit set, the last cluster in
    front of the reserved entries) in a table of the real size over a 600 MB position-coded virtual disk: every injective
    chain of <= 3 clusters over 6 cluster numbers, from every cluster offset"""
    from smpl_extract.roland.s7xx import fat as RF
    from smpl_extract.util.fat import SectorLink, add_to_sector_links
    from mcv.gen import cue as Q
    N = RF.FAT_NUM_ENTRIES
    CL = 0x2400
    top = N - 12
    pool = [2, 0x7FFF, 0x8000, 0x8001, 0xC000, top]
    for k in (1, 2, 3):
        for ch in itertools.permutations(pool, k):
            def go():
                sl = [SectorLink()] * N
                add_to_sector_links(list(ch), sl)
                table = RF.RolandFileAllocationTable(Q.VirtualBin(CL * N), N, sl)
                return [list(table.get_path(ch[0]))] + [table.get_file(ch[0], o).read(-1) for o in range(len(ch))]
            st, got = guarded(go, 20.0)
            case = {"seam": "roland_high_clusters", "chain": list(ch)}
            want = [list(ch)] + [b"".join(Q.frames_bytes(c * CL, CL) for c in ch[o:]) for o in range(len(ch))]
            if st == "ok" and got == want:
                rep.case(case, klass="high-clusters-exact", nontrivial=True)
            else:
                rep.case(case, ok=False, klass="high-cluster-file-wrong", nontrivial=True,
                         sig="roland-high:" + (st if st != "exc" else "raised:" + exc_sig(got)),
                         detail={"observed": repr(got)[:120] if st != "ok" else [got[0]] + [len(x) for x in got[1:]],
                                 "expected_lengths": [len(x) for x in want[1:]]})


class Check(CheckBase):
    id = "C07"
    level = "model_checking"
    title = "Allocation chains resolve to exactly the linked sectors, and always terminate"
    rule = ("complete enumeration: (a) all link tables over n sectors (entry in {end, next=0..n}) x all starts 0..n, "
            "n<=5 quick / 6 thorough; (b) all raw AKAI SAT tables over n sectors (word in {free,end,0x4000,0x8000,"
            "links 1..n-1, n, 0x4001, 0xBFFF}) x all starts, n=5 quick / 6 thorough; (c) all raw Roland FAT tables over scanned cells "
            "2..6 with FAT_NUM_ENTRIES rebound to 16 (word in {free,reserved,error,0xFFF8,0xFFFF,links 2..7,16}) x "
            "starts 2..7, plus the same cell patterns embedded in a real 65536-entry FAT (one representative per "
            "outcome class quick / every 7th table thorough), each with the free-cluster count word 0 / 2 / 3 / 0xFFF1 / 0xFFFF; "
            "(c') all tables over 3 (quick) / 4 (thorough) scanned cells x free-cluster count word {1,2,3,4,5,15,16,0xFFF1,0xFFFF} "
            "x the four accepted version-flag pairs (redundant header words must not influence any chain); (d) FileStream.readall over every injective chain of "
            "<=n sectors; (e) the streams the tables hand out (AKAI get_segment, Roland get_file) for every injective chain of <=4 "
            "(thorough 5) sectors: resolved four times, read to the end twice and in turn through two handles, Roland files also from every cluster offset 1..len-1 (the tail of the same walk), and Roland files over the highest cluster numbers (2, 0x7FFF, 0x8000, 0x8001, 0xC000, the last cluster) of a real-size table on a 600 MB virtual disk, every injective chain of <=3 from every offset; (f) the chain LENGTH as a dimension: one well-formed chain of 1..8000 / all sectors (AKAI 11385, Roland 65523 clusters) in a table of the real size, laid out ascending / descending / as a stride walk, and the same chain closed into a cycle (judged on termination only); (g) 18 two-partition AKAI images through the real image parser, one after the other in one process: each partition's table resolves its own file's chain and its stream delivers that partition's sectors; Roland images whose files lie on every injective chain of <= 3 clusters that touches the last or last-but-one cluster the image file holds. states = (table,start) combinations; transitions = table element reads performed by the "
            "implementation (counted by list proxies, which are also the non-termination detector). "
            "non-trivial = reference chain has >=2 sectors or is malformed")
    assumptions = ["well-formed as worded in the statement: distinct in-range sectors, ends in an end marker (or last "
                   "word of a reserved run), no sector targeted by another entry; mixed link/reserved chains are malformed",
                   "a table-level decode error is accepted iff the table contains a malformation",
                   "Roland FAT size rebound to 16 for the closed enumeration"]

    def shards(self):
        out = []
        nl = 5 if self.quick else 6
        for n in range(1, nl + 1):
            alpha = [-1] + list(range(0, n + 1))
            if n >= 5:
                for a in alpha:
                    for b in alpha if n >= 6 else [None]:
                        out.append({"seam": "links", "n": n, "prefix": [a] if b is None else [a, b]})
            else:
                out.append({"seam": "links", "n": n, "prefix": []})
        na = 5 if self.quick else 6
        for n in range(1, na + 1):
            alpha = akai_alpha(n)
            if n >= 5:
                for a in alpha:
                    for b in alpha if n >= 6 else [None]:
                        out.append({"seam": "akai", "n": n, "prefix": [a] if b is None else [a, b]})
            else:
                out.append({"seam": "akai", "n": n, "prefix": []})
        for a in R_ALPHA:
            for b in R_ALPHA:
                out.append({"seam": "roland", "prefix": [a, b]})
        for a in R_ALPHA:
            for b in R_ALPHA if not self.quick else [None]:
                out.append({"seam": "roland_hdr", "prefix": [a] if b is None else [a, b], "ncells": 3 if self.quick else 4})
        # embedded conformance: deterministic selection of cell patterns
        pats = list(itertools.product([0, 1, RC.R_ERR, 0xFFF8, 2, 3, 4, 5, 6, 7], repeat=5))
        if self.quick:
            sel = self._class_representatives(pats)
        else:
            sel = pats[::7]
        for i in range(0, len(sel), 24):
            out.append({"seam": "roland_embedded", "cells": [list(p) for p in sel[i:i + 24]]})
        for fmt in ("akai", "roland"):
            for layout in LONG_LAYOUTS:
                out.append({"seam": "long", "fmt": fmt, "layout": layout})
        out.append({"seam": "image_tables"})
        out.append({"seam": "streams", "n": 5 if self.quick else 6})
        out.append({"seam": "table_streams", "n": 4 if self.quick else 5})
        out.append({"seam": "high_clusters"})
        return out

    def _class_representatives(self, pats):
        """one cell pattern per reference-outcome class (tuple of per-start outcomes)"""
        seen = {}
        for p in pats:
            T = [0xFFFA, 0] + list(p) + [0xFFF8] * 9
            key = tuple((RC.roland_chain(T, s)[1], len(RC.roland_chain(T, s)[0] or ())) for s in range(2, 7))
            key = tuple(sorted(key))
            if key not in seen:
                seen[key] = p
        return list(seen.values())

    def run_shard(self, shard, rep: Report):
        if "replay_case" in shard:
            return self._replay(shard["replay_case"], rep)
        steps = [0]
        before = rep.evaluations
        if shard["seam"] == "links":
            run_links(shard["n"], shard["prefix"], rep, steps)
        elif shard["seam"] == "akai":
            run_akai(shard["n"], shard["prefix"], rep, steps)
        elif shard["seam"] == "roland":
            run_roland(shard["prefix"], rep, steps)
        elif shard["seam"] == "roland_hdr":
            run_roland_hdr(shard["prefix"], rep, steps, shard["ncells"])
        elif shard["seam"] == "roland_embedded":
            run_roland_embedded(shard["cells"], rep, steps)
        elif shard["seam"] == "image_tables":
            run_image_tables(rep, steps)
            run_image_tables_roland(rep, steps)
        elif shard["seam"] == "long":
            run_long(shard["fmt"], shard["layout"], rep, steps)
        elif shard["seam"] == "streams":
            run_streams(shard["n"], rep)
        elif shard["seam"] == "high_clusters":
            run_high_clusters(rep)
        elif shard["seam"] == "table_streams":
            run_table_streams(shard["n"], rep)
        rep.states += rep.evaluations - before
        rep.transitions += steps[0]
        rep.traces += rep.evaluations - before

    def _replay(self, case, rep):
        steps = [0]
        seam = case["seam"]
        sub = Report()
        if seam == "links":
            run_links(case["n"], case["table"], sub, steps)
        elif seam == "akai_sat":
            run_akai(case["n"], case["table"], sub, steps)
        elif seam == "roland_fat16":
            with RolandSmall() as RF:
                check_roland_table(RF, case["table"], ROLAND_SMALL, 2, 7, sub, steps, "roland_fat16")
        elif seam == "roland_fat65536":
            run_roland_embedded([case["cells"]], sub, steps, hdrs=(case.get("hdr", 0),))
        elif seam == "roland_high_clusters":
            run_high_clusters(sub)
            sub.violations = [v for v in sub.violations if v["case"].get("chain") == case["chain"]]
            sub.viol_count = len(sub.violations)
        elif seam in ("akai_segments", "roland_files"):
            run_table_streams(case["n"], sub)
            sub.violations = [v for v in sub.violations if v["case"].get("chain") == case["chain"] and v["case"]["seam"] == seam]
            sub.viol_count = len(sub.violations)
        elif seam == "image_tables_roland":
            run_image_tables_roland(sub, steps)
            sub.violations = [v for v in sub.violations if v["case"].get("chain") == case["chain"] and v["case"].get("last_cluster") == case["last_cluster"]] or sub.violations[:1]
            sub.viol_count = len(sub.violations)
        elif seam == "image_tables":
            run_image_tables(sub, steps)
            sub.violations = [v for v in sub.violations if v["case"].get("chains") == case["chains"] and v["case"].get("partition") == case.get("partition")] or sub.violations[:1]
            sub.viol_count = len(sub.violations)
        elif seam in ("long_akai", "long_roland"):
            run_long(seam[5:], case["layout"], sub, steps)
            sub.violations = [v for v in sub.violations if v["case"].get("length") == case["length"] and v["case"].get("closed") == case["closed"]]
            sub.viol_count = len(sub.violations)
        elif seam == "filestream":
            F = _fat_mod()
            ch = case["chain"]
            content = bytes((i * 7 + 3) % 251 for i in range(4 * case["n"] + 3))
            exp = b"".join(content[c * 4:(c + 1) * 4] for c in ch)
            st, got = guarded(lambda: F.FileStream(io.BytesIO(content), 4, list(ch)).readall(), 5.0)
            if not (st == "ok" and got == exp):
                sub.case(case, ok=False, klass="stream-wrong", sig="stream:" + st)
        # only the replayed (table, start) counts
        for v in sub.violations:
            if case.get("start") is None or v["case"].get("start") == case.get("start") or v["case"].get("start") is None:
                rep.case(case, ok=False, klass=v["sig"], detail=v["detail"], sig=v["sig"])
                return
        if sub.viol_count and case.get("start") is not None:
            # violation exists for this table but the stored ones are for other starts: scan precisely
            rep.case(case, ok=False, klass="violation-in-table", sig="violation-in-table")
            return
        rep.case(case, ok=True)
