"""C14 -- a damaged directory entry affects only that entry (single-byte / in-field byte-pair faults)."""
import itertools

from mcv.engine import core, tree
from mcv.engine.core import CheckBase, Report, exc_sig, guarded
from mcv.gen import akai as A
from mcv.gen import akai_program as AP
from mcv.gen import roland as R
from mcv.checks.c10 import parse_table
from mcv.ref import riff

MENU = [0x00, 0x01, 0x0A, 0x28, 0x29, 0x64, 0x70, 0x72, 0x73, 0x74, 0x7F, 0x80, 0xF0, 0xF3, 0xFF]


# ----------------------------------------------------------------------------- subjects
def akai_subject(variant):
    """-> (image bytes, layout, items): items = list of dict(name, kind, pcm|None)"""
    # (KICK carries two timed loops late in its audio and one held loop: a damaged size can end the audio in front of them)
    files = [{"name": "KICK", "n": 4200, "chain": [6, 5], "seq": 1,
              "hdr": {"loop_type": 0, "loops": [(4000, 0, 150, 250), (3000, 0, 400, 9999), (0, 0, 0, 0), (2000, 3, 20, 7)]}},
             {"name": "PAD-L", "n": 300, "chain": [7], "seq": 2},
             {"name": "PAD-R", "n": 300, "chain": [8], "seq": 3}]
    if variant >= 1:
        files.insert(1, {"name": "PROGX", "kind": "raw", "ftype": 0xF0, "chain": [9], "data": AP.simple_program("PROGX", 1, ("KICK",)).hex()})
    if variant >= 2:
        files.append({"name": "SNARE", "n": 4026, "chain": [10], "seq": 5})
        files.append({"name": "TAIL", "n": 6000, "chain": [12, 11], "seq": 6})      # a multi-sector file late in the table
        # one name byte away from KICK, with four entries between the two (a damaged name can equal a sibling that is not its neighbour)
        files.append({"name": "KICL", "n": 500, "chain": [13], "seq": 7})
    if variant >= 3:
        # one name byte away from the STEM of the L/R pair, in front of the pair and behind it (a damaged name can equal the
        # name the merged pair is written under)
        files.insert(0, {"name": "PAD2", "n": 700, "chain": [14], "seq": 8})
        files.append({"name": "PAD1", "n": 800, "chain": [15], "seq": 9})
        # one name byte away from a sibling's name WITH ONE MORE BLANK (a damaged name can equal a sibling up to the length of a
        # run of blanks, trailing dots, letter case ... -- whatever a later "tidying" step of a path removes)
        files.append({"name": "TOM A", "n": 600, "chain": [16], "seq": 10})
        files.append({"name": "TOM 1A", "n": 650, "chain": [17], "seq": 11})
    spec = {"parts": [{"vols": [{"name": "VOL", "dir": [3], "files": files}]}]}
    model = A.model_from_spec(spec)
    img, layout = A.build_akai(model)
    items = []
    for i, f in enumerate(model["partitions"][0]["volumes"][0]["files"]):
        pcm = A.words_bytes(f["words"][f["start"]:f["end"]]) if f.get("kind") == "sample" else None
        items.append({"name": f["name"], "pcm": pcm, "site": layout[f"p0.vol0.file{i}.entry"]})
    return img, items, "A:/VOL"


def roland_subject():
    samples = {0: {"name": "KICK", "chain": [3, 2], "points": [2, 2, 5000, 2, 100], "mode": 2, "seq": 1},
               # (its audio begins in the SECOND cluster of its chain: leading-cluster offset 1)
               1: {"name": "TOM", "chain": [6, 4], "cluster_top": 1, "points": [0, 0, 4607, 0, 100], "mode": 5, "seq": 2},
               2: {"name": "TON", "chain": [5], "points": [1, 1, 900, 1, 1200], "mode": 1, "seq": 3}}
    model = {"volumes": [{"name": "VOL", "perfs": [0]}], "performances": {0: {"name": "PERF", "patches": [0]}},
             "patches": {0: {"name": "PATCH", "partials": [0]}}, "partials": {0: {"name": "PART", "samples": [0, 1, 2]}},
             "samples": samples}
    img, layout = R.build_roland(model)
    items = []
    for i in range(3):
        items.append({"name": samples[i]["name"], "pcm": R.sample_pcm(samples[i]),
                      "sites": [layout[f"sample{i}.dir"], layout[f"sample{i}.param"]]})
    return img, items, "VOL/PERF"


_SUBJ = {}


def subject(key):
    if key not in _SUBJ:
        if key.startswith("akai"):
            img, items, path = akai_subject(int(key[4:]))
        else:
            img, items, path = roland_subject()
        st, base = guarded(lambda: observe(img, path), 60.0)
        if st != "ok":
            raise core.HarnessError(f"baseline run of the undamaged image failed: {base!r}")
        _SUBJ[key] = (img, items, path, base)
    return _SUBJ[key]


def observe(img, path):
    image = tree.open_image(img)
    listing = tree.ls(image, path)
    out, files, reported = tree.export(tree.open_image(img))
    return {"rows": table_rows(listing), "listing": listing, "files": files, "reported": reported}


def table_rows(out):
    if out.strip() == "(*empty*)":
        return []
    lines = out.split("\n")
    if len(lines) < 2 or not lines[0].startswith("Item"):
        return None
    return [l.rstrip() for l in lines[2:] if l.strip()]


def pair_partner(items, e):
    n = items[e]["name"]
    for i, it in enumerate(items):
        if i != e and it["name"][:-1] == n[:-1] and {it["name"][-1], n[-1]} == {"L", "R"} and n[-2:-1] in "- ":
            return i
    return None


def akai_name_of(entry_bytes):
    inv = {v: k for k, v in A._CH.items()}
    try:
        return "".join(inv[b] for b in entry_bytes[:12]).rstrip(" ")
    except KeyError:
        return None


def judge(key, e, damaged_img, relaxed=False):
    img, items, path, base = subject(key)
    st, obs = guarded(lambda: observe(damaged_img, path), 60.0)
    if st == "hang":
        return False, "hang", {"observed": "non-termination"}
    if st == "exc":
        return False, "aborted:" + exc_sig(obs), {"observed": repr(obs)[:300]}
    if obs["rows"] is None:
        return False, "directory-not-listed", {"observed": obs["listing"][:200]}
    # every other item still listed with its original printed name and type
    want_rows = list(base["rows"] or [])
    if len(want_rows) != len(items) + (1 if key == "roland" else 0):
        # the UNDAMAGED image does not even list all its items with this code: nothing to compare with
        return False, "undamaged-image-incomplete", {"expected_items": len(items), "rows": want_rows[:6]}
    others = [i for i in range(len(items)) if i != e]
    missing = []
    have = list(obs["rows"])
    shift = 1 if key == "roland" else 0      # a Roland performance lists its program first
    for i in ([] if relaxed else others):
        row = want_rows[i + shift]
        if row in have:
            have.remove(row)
        else:
            missing.append(row)
    if missing:
        return False, "sibling-not-listed", {"missing_rows": missing[:3], "observed_rows": obs["rows"][:6]}
    partner = pair_partner(items, e)
    if relaxed:
        # the damaged name now equals a sibling's name or pairs with it: the names shown may get a count / a stereo
        # stem, but every other sample's audio must still be there (complete, or a consistent prefix inside a merged file)
        from mcv.ref import riff as _r
        for i in others:
            p = items[i]["pcm"]
            if p is None:
                continue
            found = False
            for fp, b in obs["files"].items():
                w = _r.validate(b)
                if w.errors:
                    continue
                for c in _r.split_channels(w.data, w.fmt["channels"]):
                    k = min(len(c), len(p))
                    if k > 0 and c[:k] == p[:k] and (w.fmt["channels"] == 2 or len(c) >= len(p)):
                        found = True
            if not found:
                return False, "sibling-audio-lost(name collision)", {"lost": items[i]["name"], "files": sorted(obs["files"])[:6]}
        return True, "collision-ok", None
    pcms = {i: items[i]["pcm"] for i in others if items[i]["pcm"] is not None and i != partner}
    occ, errs = tree.channel_map(obs["files"], pcms)
    lost = [items[i]["name"] for i, o in occ.items() if not o]
    if lost:
        return False, "sibling-audio-lost", {"lost": lost, "files": sorted(obs["files"])[:6], "reported": obs["reported"][:6]}
    if partner is not None and items[partner]["pcm"] is not None:
        # the L/R partner of the damaged item: complete as a mono file, or a consistent prefix inside the merged file
        p = items[partner]["pcm"]
        ok = False
        for fp, b in obs["files"].items():
            w = riff.validate(b)
            if w.errors:
                continue
            for c in riff.split_channels(w.data, w.fmt["channels"]):
                k = min(len(c), len(p))
                if k > 0 and c[:k] == p[:k] and (w.fmt["channels"] == 2 or len(c) >= len(p)):
                    ok = True
            if w.fmt["channels"] == 2 and len(w.data) == 0:
                # the damaged half has no audio left (size field damaged down to the header): the merged file ends with the
                # shorter channel (C12), i.e. at once -- the empty prefix is the consistent prefix
                ok = True
        if not ok:
            return False, "partner-audio-lost", {"partner": items[partner]["name"], "files": sorted(obs["files"])[:6]}
    kl = "entry-gone" if len(obs["rows"]) < len(base["rows"]) else ("entry-changed" if obs["rows"] != base["rows"] else "entry-same-listing")
    return True, kl, None


def akai_case_image(key, case):
    img, items, path, base = subject(key)
    off, ln = items[case["entry"]]["site"]
    b = bytearray(img)
    for pos, val in case["bytes"]:
        b[off + pos] = val
    return bytes(b), bytes(img[off:off + ln]), bytes(b[off:off + ln])


def roland_case_image(case):
    img, items, path, base = subject("roland")
    off, ln = items[case["entry"]]["sites"][case["rec"]]
    b = bytearray(img)
    for pos, val in case["bytes"]:
        b[off + pos] = val
    return bytes(b), bytes(img[off:off + ln]), bytes(b[off:off + ln])


def skip_collision(key, case, new_entry):
    """single-byte name damage must not create a sibling's name or a stereo partner (C05/C06/C10's subject)"""
    img, items, path, base = subject(key)
    if key.startswith("akai"):
        nm = akai_name_of(new_entry)
    else:
        if case["rec"] != 0:
            return False
        try:
            nm = new_entry[:16].decode("ascii").rstrip(" \0")
        except UnicodeDecodeError:
            return False
    if nm is None or nm == items[case["entry"]]["name"]:
        return False          # the name itself is undamaged: nothing new collides
    for i, it in enumerate(items):
        if i == case["entry"]:
            continue
        if it["name"] == nm:
            return True
        if len(nm) >= 2 and nm[:-1] == it["name"][:-1] and {nm[-1], it["name"][-1]} == {"L", "R"}:
            return True
    return False


AKAI_FIELDS = {"size": (17, 3), "start": (20, 2)}
ROLAND_PAIR_FIELDS = [(0, 28, 2), (1, 16, 4), (1, 24, 4), (1, 32, 4), (1, 40, 2)]   # (record, offset, width)


class Check(CheckBase):
    id = "C14"
    level = "fault_enumeration"
    title = "A damaged directory entry affects only that entry"
    rule = ("AKAI volumes with 3, 4, 7 and 11 files (two names one byte apart at the ends of the directory; in the 11-file volume two names one byte away from the STEM of the L/R pair, one in front of the pair and one behind it, and a name one byte away from a sibling's name with a longer run of blanks, 15-value menu in both tiers) (fragmented sample with timed and held loops late in its audio, L/R pair, program, a file filling its last sector): every "
            "entry x each of its 24 bytes x value menu (15 values quick / all 256 thorough); Roland performance with 3 samples "
            "(permuted chain, reverse mode behind a leading-cluster offset, release-end mode): every byte of each sample's 32-byte directory record and 48-byte "
            "parameter record x the same menus (thorough: all 256 for sample 1, menu for the others); thorough also all byte "
            "pairs inside the multi-byte fields (size, start / fat_entry, start, sustain end, release end, cluster_top) over the "
            "menu; whole-field boundary values of the start / size / fat_entry / cluster_top / loop-point fields (table length +-1, "
            "flag and sign bits, 0, all ones) and of the NAME fields (all blanks = the empty name, all one character, all ones, cut to one character). Oracle vs the undamaged run: every other item still listed with the same printed row, its position-coded "
            "PCM complete in some exported channel (the L/R partner of a damaged item: complete when mono, a consistent prefix "
            "when merged), ls and export do not abort or hang. non-trivial = damage that changes the listing")
    assumptions = ["the L/R partner of a damaged item merged with it may be cut to the damaged half's length (C12), down to an empty file",
                   "name damage that reproduces a sibling's name or creates a stereo partner: only the audio of the other "
                   "items is required (their shown names may legitimately get a count or merge into a stereo stem)"]

    def shards(self):
        cases = []
        menu = MENU if self.quick else list(range(256))
        for key in ("akai0", "akai1", "akai2"):
            n = {"akai0": 3, "akai1": 4, "akai2": 7}[key]
            for e in range(n):
                for pos in range(24):
                    for v in menu:
                        cases.append({"subject": key, "entry": e, "bytes": [[pos, v]]})
                if not self.quick:
                    for fo, fw in AKAI_FIELDS.values():
                        for p1, p2 in itertools.combinations(range(fo, fo + fw), 2):
                            for v1, v2 in itertools.product(MENU, repeat=2):
                                cases.append({"subject": key, "entry": e, "bytes": [[p1, v1], [p2, v2]]})
        # the 11-file volume (entries one byte away from the pair's stem, and from a sibling up to a run of blanks): every entry x every byte x the 15-value menu in both tiers
        for e in range(11):
            for pos in range(24):
                for v in MENU:
                    cases.append({"subject": "akai3", "entry": e, "bytes": [[pos, v]]})
        # targeted: the single name byte that turns an entry's name into a sibling's name (PAD-L <-> PAD-R, TOM <-> TON)
        for key in ("akai0", "akai1", "akai2", "akai3"):
            img, items, path, base = subject(key)
            for e, it in enumerate(items):
                for o, other in enumerate(items):
                    if o == e or len(other["name"]) != len(it["name"]):
                        continue
                    diff = [k for k in range(len(it["name"])) if it["name"][k] != other["name"][k]]
                    if len(diff) == 1:
                        cases.append({"subject": key, "entry": e, "bytes": [[diff[0], A._CH[other["name"][diff[0]]]]]})
        # targeted: the start field set to every used sector of the partition (first and inner sectors of other files)
        for key in ("akai0", "akai1", "akai2"):
            img, items, path, base = subject(key)
            for e in range(len(items)):
                for sec in range(3, 14):
                    cases.append({"subject": key, "entry": e, "bytes": [[20, sec]]})
        # targeted: whole-field boundary values (all bytes of the field set at once): first sector behind the table, last
        # entry of the table, partition size +-1, sign / flag bits
        def field(fo, fw, v):
            return [[fo + i, (v >> (8 * i)) & 0xFF] for i in range(fw)]
        for key in ("akai0", "akai1", "akai2"):
            img, items, path, base = subject(key)
            for e in range(len(items)):
                for v in (0, 1, 2, A.SAT_N - 2, A.SAT_N - 1, A.SAT_N, A.SAT_N + 1, 0x3FFF, 0x4000, 0x7FFF, 0x8000, 0xC000, 0xFFFE, 0xFFFF):
                    cases.append({"subject": key, "entry": e, "bytes": field(20, 2, v)})
                for v in (0, 1, 139, 140, 141, 8191, 8192, 8193, 0x7FFFFF, 0x800000, 0xFFFFFF):
                    cases.append({"subject": key, "entry": e, "bytes": field(17, 3, v)})
        # targeted: the whole NAME field at once (all blanks -> the empty name, all '0', all 'A', all ones, and a name cut down to
        # its first character)
        for key in ("akai0", "akai1", "akai2", "akai3"):
            img, items, path, base = subject(key)
            for e in range(len(items)):
                for v in (0x0A, 0x00, 0x0B, 0x28, 0xFF):
                    cases.append({"subject": key, "entry": e, "bytes": [[k, v] for k in range(12)]})
                cases.append({"subject": key, "entry": e, "bytes": [[k, 0x0A] for k in range(1, 12)]})
        rcases = []
        for e in range(3):
            for rec in (0, 1):
                for v in (0x20, 0x00, 0x41, 0x7F, 0xFF):
                    rcases.append({"subject": "roland", "entry": e, "rec": rec, "bytes": [[k, v] for k in range(16)]})
                rcases.append({"subject": "roland", "entry": e, "rec": rec, "bytes": [[k, 0x20] for k in range(1, 16)]})
        for e in range(3):
            for v in (0, 1, 0xFFF0, R.FAT_N - 11, R.FAT_N - 10, R.FAT_N - 9, 0xFFF6, 0xFFF7, 0xFFF8, 0xFFFE, 0xFFFF, 0x7FFF, 0x8000):
                rcases.append({"subject": "roland", "entry": e, "rec": 0, "bytes": field(28, 2, v)})
            for v in (1, 2, 3, 4, 0x7FFF, 0x8000, 0xFFFF):
                rcases.append({"subject": "roland", "entry": e, "rec": 1, "bytes": field(40, 2, v)})
            for off in (16, 24, 32):
                for v in (0, 0x100, 0x11FF00, 0x120000, 0x23FF00, 0x240000, 0x7FFFFF00, 0x80000000, 0xFFFFFF00, 0xFFFFFFFF):
                    rcases.append({"subject": "roland", "entry": e, "rec": 1, "bytes": field(off, 4, v)})
        for e in range(3):
            for cl in range(2, 8):
                rcases.append({"subject": "roland", "entry": e, "rec": 0, "bytes": [[28, cl]]})      # fat_entry low byte
        rcases.append({"subject": "roland", "entry": 1, "rec": 0, "bytes": [[2, ord("N")]]})
        rcases.append({"subject": "roland", "entry": 2, "rec": 0, "bytes": [[2, ord("M")]]})
        for e in range(3):
            for rec, ln in ((0, 32), (1, 48)):
                for pos in range(ln):
                    for v in (menu if (e == 1 or self.quick) else MENU):
                        rcases.append({"subject": "roland", "entry": e, "rec": rec, "bytes": [[pos, v]]})
        if not self.quick:
            for rec, fo, fw in ROLAND_PAIR_FIELDS:
                for p1, p2 in itertools.combinations(range(fo, fo + fw), 2):
                    for v1, v2 in itertools.product(MENU, repeat=2):
                        rcases.append({"subject": "roland", "entry": 0, "rec": rec, "bytes": [[p1, v1], [p2, v2]]})
        return self.chunk(cases, 150) + self.chunk(rcases, 12)

    def run_shard(self, shard, rep: Report):
        cases = [shard["replay_case"]] if "replay_case" in shard else shard["cases"]
        for case in cases:
            key = case["subject"]
            if key == "roland":
                dimg, old, new = roland_case_image(case)
            else:
                dimg, old, new = akai_case_image(key, case)
            if old == new:
                rep.notes["identity (value equals the stored byte)"] += 1
                continue
            relaxed = skip_collision(key, case, new)
            ok, klass, detail = judge(key, case["entry"], dimg, relaxed)
            site = f"{key}:entry{case['entry']}" + (f":rec{case['rec']}" if "rec" in case else "")
            rep.case(case, ok=ok, klass=klass, nontrivial=klass != "entry-same-listing", detail=detail,
                     sig=f"{key}:{klass}:byte{case['bytes'][0][0]}" + (f":rec{case['rec']}" if "rec" in case else ""))
