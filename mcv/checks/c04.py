"""C04 -- every exported file is a structurally valid RIFF/WAVE PCM file."""
import itertools

from mcv.engine import core, tree
from mcv.engine.core import CheckBase, Report, exc_sig, guarded
from mcv.gen import akai as A
from mcv.ref import riff

BND = [0, 1, 127, 128, 255]


def F_s8(v):
    return v - 256 if v > 127 else v


def build_wav(note, semi, cents, rate=44100, loop_type=2, loops=(), n=12, stereo=False):
    from smpl_extract.akai.sample import SampleAdapter, SampleHeaderConstruct
    from smpl_extract.generalized.wav import WavSampleBuilder
    from smpl_extract.generalized.sample import combine_stereo
    con = SampleAdapter(SampleHeaderConstruct)
    hdr = dict(sid=3, sname="S", count=n, start=0, end=n, rate=rate, note=note,
               semi=semi - 256 if semi > 127 else semi, cents=cents - 256 if cents > 127 else cents,
               loop_type=loop_type, loops=list(loops))
    g = con.parse(A.sample_file(hdr, A.pcm_words(1, n))).to_generalized()
    if stereo:
        g2 = con.parse(A.sample_file(hdr, A.pcm_words(2, n))).to_generalized()
        g = combine_stereo(g, g2, "ST")
    return WavSampleBuilder.build(g)


def check_wav(b, channels):
    w = riff.validate(b)
    if w.errors:
        return w.errors
    if w.fmt["channels"] != channels:
        return [f"channels {w.fmt['channels']} != {channels}"]
    return []


def header_case(rep, case):
    st, val = guarded(lambda: build_wav(case["note"], case["semi"], case["cents"], case.get("rate", 44100),
                                        case.get("loop_type", 2), [tuple(l) for l in case.get("loops", [])],
                                        stereo=case.get("stereo", False)), 10.0)
    nt = case.get("loop_type", 2) != 2 or case.get("stereo", False) or case["note"] != 60
    if st == "hang":
        rep.case(case, ok=False, klass="hang", nontrivial=nt, sig="header:hang")
    elif st == "exc":
        # export does not succeed for this header value: outside the statement, but counted
        rep.case(case, klass="build-failed:" + type(val).__name__, nontrivial=False)
    else:
        errs = check_wav(val, 2 if case.get("stereo") else 1)
        w = riff.walk(val)
        kl = "valid:" + "+".join(c[0].decode().strip() for c in w.chunks) + (":st" if case.get("stereo") else "")
        if not errs:
            lw = riff.validate(val)
            kl += f":{lw.smpl['loops']}loops" if lw.smpl else ""
        rep.case(case, ok=not errs, klass=kl if not errs else "invalid-wav", nontrivial=nt, detail={"errors": errs[:3]} if errs else None,
                 sig="header:invalid-wav")


LOOP_AT = [0, 1, 11, 12, 2 ** 32 - 1]
LOOP_LEN = [0, 1, 11, 12, 2 ** 32 - 1]
LOOP_DUR = [0, 1, 9998, 9999, 65535]


class Check(CheckBase):
    id = "C04"
    level = "exploration"
    title = "Every exported file is a structurally valid RIFF/WAVE PCM file"
    rule = ("(i) every WAV written by re-running the structural sweeps (AKAI structure sweep and the 13 name families x 5 volume names of C01, Roland window+header "
            "sweeps of C02 -- all loop modes --, CDDA file cases of C03) walked by an independent RIFF walker + stdlib wave, "
            "each AKAI/Roland case exported a second time into a destination that already holds longer files under the same "
            "names; AKAI volumes in which one sample's WAV cannot be built (negative MIDI note): reported files must "
            "still be well-formed; sources that hold less audio than a header declares (AKAI count / end marker beyond the file, an "
            "AKAI image cut inside a sample, a bin shorter than its cue sheet demands): reported files must still be well-formed; "
            "(ii) narrow seam SampleHeader parse -> generalized -> WAV builder: root key x semitone x cents bytes -- quick: "
            "the three 256x256 faces through 5 boundary values of the third byte, thorough: the full 256^3 product -- mono, "
            "and the faces again as L/R stereo pairs; L/R pairs of unequal length for every pair of lengths in {1,2,2047,2048,2049,4095,4096,"
            "4097,6145,6146} words (AKAI; Roland: 36 pairs); loop table: loop type {0..4} x (loop_at, length, duration) corner values "
            "for 1, 2 and 8 active slots x rate {0,1,44100,65535}; every value 0..65535 of the sample-rate field, mono and as an L/R pair. Builds that raise are 'export did not succeed' (counted, "
            "not violations). non-trivial = non-default key, looped, or stereo")
    assumptions = ["cases whose build raises are outside the statement; their number is reported, and a header value that "
                   "makes every build fail trips the vacuity alarm"]

    def shards(self):
        out = []
        # (i) sweeps
        from mcv.checks import c01, c02, c03
        cases = [dict(c, origin="c01") for c in c01.sweep_structure(self.quick)]
        cases = cases if not self.quick else cases[::3]
        # name shapes (inner dots, '#', '+', blanks, '.WAV' endings, equal names, all 41 AKAI characters): a reported file
        # must exist under the reported name and be well-formed whatever the name looks like
        cases += [dict(c, origin="c01") for c in c01.sweep_names(self.quick)]
        out += self.chunk(cases, 24)
        rc = [dict(c, origin="c02") for c in itertools.chain(c02.sweep_window(self.quick), c02.sweep_header(self.quick))]
        rc = rc if not self.quick else rc[::4]
        out += self.chunk(rc, 6)
        out.append({"origin": "c03"})
        # L/R pairs of UNEQUAL length: every pair of lengths around the transcoder's 2048-word block (a channel that ends
        # blocks before the other, odd left-overs)
        lens = [1, 2, 2047, 2048, 2049, 4095, 4096, 4097, 6145, 6146]
        pc = []
        for nl in lens:
            for nr in lens:
                ml, mr = A.needed_sectors(140 + 2 * nl), A.needed_sectors(140 + 2 * nr)
                files = [{"name": "PAD -L", "n": nl, "chain": list(range(4, 4 + ml)), "seq": 1},
                         {"name": "PAD -R", "n": nr, "chain": list(range(4 + ml, 4 + ml + mr))[::-1], "seq": 2},
                         {"name": "MONO", "n": 77, "chain": [4 + ml + mr], "seq": 3}]
                pc.append({"origin": "c01", "sweep": "pairlens", "spec": {"parts": [{"vols": [{"name": "VOL", "dir": [3], "files": files}]}]}})
        from mcv.gen import roland as R
        for el in lens[::2] + [6146]:
            for er in lens[1::2] + [1]:
                smp = {0: {"name": "PAD L", "chain": [2, 3], "points": [0, 0, el - 1, 0, 9], "mode": 2, "seq": 1},
                       1: {"name": "PAD R", "chain": [5, 4], "points": [0, 0, er - 1, 0, 9], "mode": 2, "seq": 2}}
                pc.append({"origin": "c02", "sweep": "pairlens", "model": c02.simple_model(smp)})
        out += self.chunk(pc, 8)
        # (ii) narrow seam
        if self.quick:
            for face in ("note-semi", "note-cents", "semi-cents"):
                for third in BND:
                    for hi in range(0, 256, 32):
                        out.append({"origin": "faces", "face": face, "third": third, "lo": hi, "hi": hi + 32, "stereo": False})
            for face in ("note-semi", "note-cents", "semi-cents"):
                out.append({"origin": "faces", "face": face, "third": 0, "lo": 0, "hi": 256, "stereo": True, "step": 4})
        else:
            for note in range(256):
                out.append({"origin": "cube", "note": note})
            for face in ("note-semi", "note-cents", "semi-cents"):
                for third in BND:
                    out.append({"origin": "faces", "face": face, "third": third, "lo": 0, "hi": 256, "stereo": True, "step": 2})
        for lt in range(5):
            for slots in (1, 2, 8):
                out.append({"origin": "loops", "loop_type": lt, "slots": slots})
        # every value of the 16-bit sample-rate field, mono and as an L/R pair (in blocks of 4096 rates)
        for stereo in (False, True):
            for lo in range(0, 65536, 4096):
                out.append({"origin": "rates", "lo": lo, "stereo": stereo})
        return out

    def run_shard(self, shard, rep: Report):
        if "replay_case" in shard:
            c = shard["replay_case"]
            if c.get("origin") in ("c01", "c02"):
                return self._sweep_case(c, rep)
            if c.get("origin") == "short":
                sub = Report()
                self._short_sources(sub)
                hit = [v for v in sub.violations if v["case"] == c]
                rep.case(c, ok=not hit, klass="short", detail=hit[0]["detail"] if hit else None, sig="short:reported-file-invalid")
                return
            if c.get("origin") == "poison":
                sub = Report()
                self._poison(sub)
                hit = [v for v in sub.violations if v["case"] == c]
                rep.case(c, ok=not hit, klass="poison", detail=hit[0]["detail"] if hit else None, sig="poison:reported-file-invalid")
                return
            return header_case(rep, c)
        o = shard.get("origin")
        if "cases" in shard:
            for c in shard["cases"]:
                self._sweep_case(c, rep)
        elif o == "c03":
            self._cdda(rep)
            self._poison(rep)
            self._short_sources(rep)
        elif o == "faces":
            step = shard.get("step", 1)
            for a in range(shard["lo"], shard["hi"], step):
                for b in range(0, 256, step):
                    t = shard["third"]
                    note, semi, cents = {"note-semi": (a, b, t), "note-cents": (a, t, b), "semi-cents": (t if t else 60, a, b)}[shard["face"]]
                    header_case(rep, {"note": note, "semi": semi, "cents": cents, "stereo": shard["stereo"]})
        elif o == "cube":
            for semi in range(256):
                for cents in range(256):
                    header_case(rep, {"note": shard["note"], "semi": semi, "cents": cents})
        elif o == "rates":
            for rate in range(shard["lo"], shard["lo"] + 4096):
                header_case(rep, {"note": 60, "semi": 0, "cents": 0, "rate": rate, "stereo": shard["stereo"]})
        elif o == "loops":
            slots = shard["slots"]
            combos = list(itertools.product(LOOP_AT, LOOP_LEN, LOOP_DUR))
            for rate in (0, 1, 44100, 65535):
                if slots == 1:
                    sets = [[c] for c in combos]
                elif slots == 2:
                    sets = [[a, b] for a in combos[::7] for b in combos[::11]]
                else:
                    sets = [[combos[(i * 13 + k * 29) % len(combos)] for k in range(8)] for i in range(len(combos))]
                for ls_ in sets:
                    loops = [[at, 0, ln, du] for at, ln, du in ls_]
                    header_case(rep, {"note": 60, "semi": 0, "cents": 0, "rate": rate, "loop_type": shard["loop_type"], "loops": loops})

    def _sweep_case(self, c, rep):
        from mcv.gen import roland as R
        from mcv.checks import c02
        if c["origin"] == "c01":
            img = A.build_akai(A.model_from_spec(c["spec"]))[0]
        else:
            img = R.build_roland(c02.norm_model(c["model"]))[0]
        res = tree.full_run(img, cpu_s=30.0, ls_paths=())
        case = dict(c)
        if res["status"] == "ok" and res["files"]:
            # second pass: the destination already holds LONGER files under the same names (an earlier export of
            # another image); what is reported must be well-formed all the same
            import os
            from mcv.engine.core import scratch_dir, guarded
            with scratch_dir("c04p") as d:
                dest = os.path.join(d, "dest")
                for p, b in res["files"].items():
                    os.makedirs(os.path.dirname(os.path.join(dest, p)), exist_ok=True)
                    with open(os.path.join(dest, p), "wb") as f:
                        f.write(b + b"\xAA" * 5000)
                st, val = guarded(lambda: tree.export(tree.open_image(img), dest), 30.0)
                if st == "ok":
                    res2 = {"files": val[1], "reported": val[2]}
                    for p in res2["reported"]:
                        b = res2["files"].get(p)
                        w = riff.validate(b) if b is not None else None
                        if w is None or w.errors:
                            rep.case(dict(case, prefilled=True), ok=False, klass="invalid-wav-over-existing-file", nontrivial=True,
                                     sig=f"{c['origin']}:invalid-wav-over-existing-file", detail={"path": p, "errors": (w.errors[:2] if w else ["missing"])})
                            return
                else:
                    rep.case(dict(case, prefilled=True), ok=False, klass="export-over-existing-" + st, nontrivial=True,
                             sig=f"{c['origin']}:export-over-existing-{st}", detail={"observed": repr(val)[:200]})
                    return
        if res["status"] != "ok":
            rep.case(case, ok=False, klass="export-" + res["status"], nontrivial=True, sig=f"{c['origin']}:export-{res['status']}",
                     detail={"observed": repr(res["exc"])[:200]})
            return
        bad = []
        for p in res["reported"]:
            b = res["files"].get(p)
            if b is None:
                bad.append(f"{p}: reported but not on disk")
                continue
            w = riff.validate(b)
            if w.errors:
                bad.append(f"{p}: {w.errors[:2]}")
        rep.case(case, ok=not bad, klass=f"{c['origin']}:{len(res['reported'])}files", nontrivial=len(res["reported"]) > 0,
                 detail={"errors": bad[:3]} if bad else None, sig=f"{c['origin']}:invalid-wav")

    def _poison(self, rep):
        """Volumes in which one sample's WAV cannot be built (root key + semitone tuning give a negative MIDI note):
        whatever the run does about it, every file it REPORTS must be well-formed."""
        for pos in range(3):
            for note, semi in ((24, 0xCE), (21, 0x80), (0, 0x9C)):
                files = []
                for i in range(3):
                    hdr = {"note": note, "semi": F_s8(semi)} if i == pos else {}
                    files.append({"name": ["KICK", "SNARE", "HAT"][i], "n": 40 + i, "chain": [4 + i], "seq": i + 1, "hdr": hdr})
                spec = {"parts": [{"vols": [{"name": "VOL", "dir": [3], "files": files}]}]}
                img = A.build_akai(A.model_from_spec(spec))[0]
                res = tree.full_run(img, cpu_s=30.0, ls_paths=())
                case = {"origin": "poison", "pos": pos, "note": note, "semi": semi}
                if res["status"] == "hang":
                    rep.case(case, ok=False, klass="hang", nontrivial=True, sig="poison:hang")
                    continue
                bad = []
                for p in res["reported"]:
                    b = res["files"].get(p)
                    w = riff.validate(b) if b is not None else None
                    if w is None or w.errors:
                        bad.append(f"{p}: {(w.errors[:2] if w else 'reported but missing')}")
                rep.case(case, ok=not bad, klass=f"poison:{res['status']}:{len(res['reported'])}reported", nontrivial=True,
                         detail={"errors": bad[:3]} if bad else None, sig="poison:reported-file-invalid")

    def _short_sources(self, rep):
        """sources that hold LESS audio than a header declares (markers beyond the file, a truncated image, a bin shorter than
        its cue sheet demands): whatever the run does, every file it REPORTS must be well-formed"""
        import os
        from mcv.gen import cue as Q
        from mcv.engine.core import scratch_dir
        from mcv.checks import c01

        def judge(case, res):
            if res["status"] == "hang":
                rep.case(case, ok=False, klass="hang", nontrivial=True, sig="short:hang")
                return
            bad = []
            for p in res["reported"]:
                b = res["files"].get(p)
                w = riff.validate(b) if b is not None else None
                if w is None or w.errors:
                    bad.append(f"{p}: {(w.errors[:2] if w else 'reported but missing')}")
            rep.case(case, ok=not bad, klass=f"short:{res['status']}:{len(res['reported'])}reported", nontrivial=True,
                     detail={"errors": bad[:3]} if bad else None, sig="short:reported-file-invalid")
        # (a) AKAI: word count / end marker beyond what the file (or its last sector) holds
        for n, cnt, end in ((300, 5000, 5000), (300, 4026, 4026), (300, 4027, 4027), (4026, 9000, 9000), (10, 2 ** 20, 2 ** 20), (300, 300, 301)):
            spec = c01.one_file_spec(n, 0, end, hdr={"count": cnt})
            spec["parts"][0]["vols"][0]["files"].append({"name": "AFTER", "n": 50, "chain": [9], "seq": 2})
            img = A.build_akai(A.model_from_spec(spec))[0]
            judge({"origin": "short", "what": "akai-markers", "n": n, "count": cnt, "end": end}, tree.full_run(img, cpu_s=30.0, ls_paths=()))
        # (b) AKAI image cut inside / at the end of a three-sector mono sample and of a pair
        spec = c01.structure_spec(1, 1, 3, pair=True)
        img = A.build_akai(A.model_from_spec(spec))[0]
        for cut in sorted({len(img) - k for k in (1, 2, 100, 4096, 8191, 8192, 8193, 12000, 16384, 20000)}):
            if cut > 3 * 8192:
                judge({"origin": "short", "what": "akai-cut", "cut": cut}, tree.full_run(img[:cut], cpu_s=30.0, ls_paths=()))
        # (b') cuts at odd and even byte offsets INSIDE the audio of a mono sample of three sectors (reversed chain)
        spec = {"parts": [{"vols": [{"name": "VOL", "dir": [3], "files": [
            {"name": "MONO", "n": 10000, "chain": [6, 5, 4], "seq": 1}, {"name": "TAIL", "n": 40, "chain": [7], "seq": 2}]}]}]}
        img, layout = A.build_akai(A.model_from_spec(spec))
        for sec in (4, 5, 6):
            base = 8192 * sec      # one partition starting at offset 0: sector k lies at 8192*k
            for d in (1, 2, 3, 141, 142, 1001, 4096, 4097, 8190, 8191):
                cut = base + d
                judge({"origin": "short", "what": "akai-cut-in-audio", "cut": cut}, tree.full_run(img[:cut], cpu_s=30.0, ls_paths=()))
        # (c) CDDA: the bin is shorter than the cue sheet's index positions / ends inside a track
        for positions, binlen in (([0, 2, 4], 2352 * 3 + 7), ([0, 2, 4], 2352 * 2), ([0, 150], 2352 * 100), ([1, 3], 2352), ([0], 5), ([0, 1], 2352 + 2)):
            with scratch_dir("c04s") as d:
                with open(os.path.join(d, "disc.bin"), "wb") as f:
                    f.write(Q.bin_bytes(binlen))
                cue = os.path.join(d, "disc.cue")
                tracks = [{"number": i + 1, "title": "T%d" % i, "indices": [(1, p)]} for i, p in enumerate(positions)]
                with open(cue, "w") as f:
                    f.write(Q.cue_text("disc.bin", tracks))
                res = tree.full_run(cue, cpu_s=30.0, ls_paths=())
            judge({"origin": "short", "what": "cdda-short-bin", "positions": positions, "binlen": binlen}, res)

    def _cdda(self, rep):
        from mcv.checks import c03
        for positions in ([0], [0, 2], [1, 75, 76]):
            for r in (0, 1, 3, 2353):
                case = {"kind": "files", "positions": positions, "opts": [["two", True]] * len(positions),
                        "binlen": 2352 * positions[-1] + r}
                ok, klass, detail = c03.run_files(case)
                rep.case(dict(case, origin="c03"), ok=ok, klass="c03:" + klass, nontrivial=True, detail=detail, sig="c03:" + klass)

    def finalize(self, rep):
        valid = sum(v for k, v in rep.classes.items() if k.startswith("valid"))
        if valid < 1000:
            raise core.HarnessError("vacuous: fewer than 1000 successfully built files were walked")
