"""C20 -- `ls` reports the header values stored in the image for samples and programs."""
import itertools
import os

from mcv.engine import core, tree
from mcv.engine.core import CheckBase, Report, exc_sig, guarded, scratch_dir
from mcv.gen import akai as A
from mcv.gen import akai_program as AP
from mcv.gen import roland as R
from mcv.gen import cue as Q
from mcv.ref import fields as F

U32 = [0, 1, 65536, 2 ** 31, 2 ** 32 - 1]


# ----------------------------------------------------------------------------- AKAI sample
def sample_base(which):
    if which == 0:
        return dict(sid=3, note=60, sname="SNAME", loop_type=1, cents=5, semi=0xFD, count=1000, start=10, end=900, rate=32000,
                    loops=[[500, 7, 100, 250], [800, 3, 50, 9999]] + [[0, 0, 0, 0]] * 6)
    return dict(sid=1, note=72, sname="OTHER.NAME", loop_type=0, cents=0x90, semi=7, count=77, start=3, end=70, rate=0,
                loops=[[0, 0, 0, 0], [40, 1, 10, 1], [0, 0, 0, 0], [60, 2, 30, 65535], [50, 0, 5, 9998]] + [[0, 0, 0, 0]] * 3)


# the 41 characters an AKAI name can hold, each at least once (no leading / trailing blank: the printed form is stripped)
NAMES41 = ["0123456789 A", "BCDEFGHIJKLM", "NOPQRSTUVWXY", "Z#+-. A+B-C#", "+", "-", "A-B+C", "-+-+",
           # every character once in LAST position of a short name (the code of '0' is 0, that of the blank 10)
           "KICK 10", "TOM 0", "0", "00", "A1", "B9", "C#", "D+", "E-", "F.", "GZ"]


def sample_image(h):
    hdr = dict(h)
    hdr["semi"] = F.s8(h["semi"])
    hdr["cents"] = F.s8(h["cents"])
    hdr["loops"] = [tuple(l) for l in h["loops"]]
    data = A.sample_header(hdr) + A.words_bytes(A.pcm_words(1, 20))
    spec = {"parts": [{"vols": [{"name": "VOL", "dir": [3], "files": [
        {"name": h.get("fname", "FNAME"), "kind": "raw", "ftype": 0xF3 if h["sid"] == 3 else 0x73, "chain": [4], "data": data.hex()}]}]}]}
    # a file name that is not the plain default is addressed by the name the volume listing prints for it
    return A.build_akai(A.model_from_spec(spec))[0], ("A:/VOL/FNAME" if "fname" not in h else None)


def sample_expect(h):
    exp = [("file_name", "name12", h.get("fname", "FNAME")), ("sample_name", "name12", h["sname"]), ("sample_type", "enum:sample_type", h["sid"]),
           ("sample_rate", "u32", h["rate"] or 44100), ("samples_cnt", "u32", h["count"]), ("start_sample", "u32", h["start"]),
           ("end_sample", "u32", h["end"]), ("pitch_semi", "s8", h["semi"]), ("loop_type", "enum:sample_loop", h["loop_type"])]
    if h["loop_type"] != 2:
        k = 0
        for at, fine, ln, dur in h["loops"]:
            if dur > 0:
                exp.append((f"loop_entries/loop_entries[{k}]/loop_end", "u32", at))
                exp.append((f"loop_entries/loop_entries[{k}]/loop_duration", "u32", dur))
                k += 1
    return exp


def sample_cases(quick):
    for which in (0, 1):
        yield {"kind": "akai_sample", "base": which, "dev": []}
        for field, vals in (("sid", [1, 3]), ("loop_type", [0, 1, 2, 3, 4]), ("semi", F.domain_values("s8")), ("cents", F.domain_values("s8")),
                            ("count", U32), ("start", U32), ("end", U32), ("rate", [0, 1, 44100, 65535]), ("note", [21, 24, 60, 127])):
            for v in vals:
                yield {"kind": "akai_sample", "base": which, "dev": [[field, v]]}
        for nm in NAMES41:
            yield {"kind": "akai_sample", "base": which, "dev": [["sname", nm]]}
            yield {"kind": "akai_sample", "base": which, "dev": [["fname", nm]]}
        for slot in range(8):
            for dur in (0, 1, 9998, 9999, 65535):
                yield {"kind": "akai_sample", "base": which, "dev": [[f"loop{slot}", [300 + slot, slot, 20, dur]]]}
            for at in (0, 1, 2 ** 32 - 1):
                yield {"kind": "akai_sample", "base": which, "dev": [[f"loop{slot}", [at, 0, 5, 77]]]}
        if not quick:
            for (f1, v1s), (f2, v2s) in itertools.combinations([("count", U32), ("start", U32), ("end", U32), ("rate", [0, 65535]),
                                                                ("semi", [0x80, 0x7F]), ("loop_type", [0, 2, 3])], 2):
                for v1 in v1s:
                    for v2 in v2s:
                        yield {"kind": "akai_sample", "base": which, "dev": [[f1, v1], [f2, v2]]}


def build_sample(case):
    h = sample_base(case["base"])
    h["loops"] = [list(l) for l in h["loops"]]
    for f, v in case["dev"]:
        if f.startswith("loop") and f != "loop_type":
            h["loops"][int(f[4:])] = list(v)
        else:
            h[f] = v
    img, path = sample_image(h)
    return img, path, sample_expect(h), (None if "fname" in h else "FNAME")


# ----------------------------------------------------------------------------- AKAI program
def program_base(which, nkg=2, zone_pattern=(1, 1, 0, 0)):
    v = {}
    i = 0
    for name, off, kind in AP.PROGRAM_FIELDS:
        i += 1
        if kind == "u8":
            v[name] = (11 + 3 * i + 40 * which) % 200
        elif kind == "s8":
            v[name] = (256 - (3 + i) - which) & 0xFF if i % 2 else (5 + i + which)
        elif kind == "bool":
            v[name] = (i + which) % 2
        elif kind == "note":
            v[name] = 30 + i + 12 * which
        elif kind == "cents":
            v[name] = (0x90 + i) & 0xFF if which else (10 + i)
        elif kind in ("omni", "off"):
            v[name] = 255 if (i + which) % 2 else 3 + i
        elif kind.startswith("enum"):
            v[name] = (i + which) % len(F.domain_values(kind))
        elif kind == "name12":
            v[name] = "PRG NAME" if which == 0 else "SECOND.PRG"
        elif kind == "u16":
            v[name] = 150
    kgs = []
    for k in range(nkg):
        kv = {}
        j = 0
        for name, off, kind in AP.KEYGROUP_FIELDS:
            j += 1
            if kind == "u8":
                kv[name] = (7 + 5 * j + 30 * k + 13 * which) % 250
            elif kind == "s8":
                kv[name] = (256 - (2 + j + 10 * k)) & 0xFF if j % 2 else (4 + j + 10 * k + which)
            elif kind == "bool":
                kv[name] = (j + k + which) % 2
            elif kind == "note":
                kv[name] = 25 + j + 20 * k
            elif kind == "cents":
                kv[name] = (20 + j + k) if which == 0 else (0xA0 + j + k)
            elif kind == "u16":
                kv[name] = 0
        kv["block_id"] = 2 + k
        zones = []
        for z in range(4):
            zv = AP.default_zone_values(f"Z{k}{z}SMP" if zone_pattern[z] else "")
            zv.update(low_velocity=10 * z + k + 1, high_velocity=100 + z + k, tune_cents=z + 1, tune_semitones=(256 - z - 1) & 0xFF,
                      loudness_offset=z + 2, filter_cutoff_offset=(250 - z) & 0xFF, pan_offset=z + 3, loop_mode=(z + k) % 5)
            zones.append(zv)
        kgs.append({"values": kv, "zones": zones, "key_tracking": (1, 0, 1, 0), "aux": (1, 2, 3, 4), "starts": (5, -6, 7, -8)})
    return v, kgs


def program_image(v, kgs, temper, addresses):
    data = AP.program_bytes(v, kgs, temper, addresses)
    spec = {"parts": [{"vols": [{"name": "VOL", "dir": [3], "files": [
        {"name": "PFILE", "kind": "raw", "ftype": 0xF0, "chain": list(range(4, 4 + A.needed_sectors(len(data)))), "data": data.hex()}]}]}]}
    return A.build_akai(A.model_from_spec(spec))[0], "A:/VOL/PFILE"


def program_expect(v, kgs, temper):
    exp = []
    for name, off, kind in AP.PROGRAM_FIELDS:
        if name == "first_keygroup_address":
            continue
        stored = len(kgs) if name == "number_of_keygroups" else v[name]
        if F.in_domain(kind, stored):
            exp.append((name, kind, stored))
    for i, t in enumerate(temper):
        exp.append((f"key_temperaments/key_temperaments[{i}]", "u8", t))
    for k, kg in enumerate(kgs):
        base = f"keygroups/keygroups[{k}]"
        for name, off, kind in AP.KEYGROUP_FIELDS:
            if name == "next_keygroup_address":
                continue
            exp.append((f"{base}/{name}", kind, kg["values"][name]))
        z_out = 0
        for z in kg["zones"][:4]:
            if z["sample_name"].strip():
                zb = f"{base}/velocity_zones/velocity_zones[{z_out}]"
                exp.append((zb + "/sample_name", "name12", z["sample_name"]))
                exp.append((zb + "/low_velocity", "u8", z["low_velocity"]))
                exp.append((zb + "/high_velocity", "u8", z["high_velocity"]))
                z_out += 1
    return exp


ADDRESS_LAYOUTS = {
    1: [[150], [72], [151], [400]],
    2: [[150, 300], [300, 150], [72, 222], [150, 450], [151, 307], [600, 200]],
    3: [[150, 300, 450], [450, 150, 300], [72, 222, 372], [100, 500, 300]],
}
ZONE_PATTERNS = [p for p in itertools.product((0, 1), repeat=4)]


def program_cases(quick):
    for which in (0, 1):
        yield {"kind": "akai_program", "base": which, "nkg": 2, "zones": [1, 1, 0, 0], "addr": [150, 300], "dev": []}
        for name, off, kind in AP.PROGRAM_FIELDS:
            if kind in ("name12", "u16") or name == "number_of_keygroups":
                continue
            for val in F.domain_values(kind):
                yield {"kind": "akai_program", "base": which, "nkg": 1, "zones": [1, 0, 0, 0], "addr": [150], "dev": [["hdr", name, val]]}
        for name, off, kind in AP.PROGRAM_FIELDS:
            if kind == "name12":
                for nm in NAMES41:
                    yield {"kind": "akai_program", "base": which, "nkg": 1, "zones": [1, 0, 0, 0], "addr": [150], "dev": [["hdr", name, nm]]}
        for z in range(4):
            for nm in NAMES41:
                yield {"kind": "akai_program", "base": which, "nkg": 1, "zones": [1, 1, 1, 1], "addr": [150], "dev": [["zone", 0, z, "sample_name", nm]]}
        for i in range(12):
            for val in (0, 1, 255):
                yield {"kind": "akai_program", "base": which, "nkg": 1, "zones": [1, 0, 0, 0], "addr": [150], "dev": [["temper", i, val]]}
        for k in (0, 1):
            for name, off, kind in AP.KEYGROUP_FIELDS:
                if kind == "u16":
                    continue
                for val in F.domain_values(kind):
                    yield {"kind": "akai_program", "base": which, "nkg": 2, "zones": [1, 0, 0, 0], "addr": [150, 300], "dev": [["kg", k, name, val]]}
        for z in range(4):
            for name, kind in (("low_velocity", "u8"), ("high_velocity", "u8")):
                for val in F.domain_values(kind):
                    yield {"kind": "akai_program", "base": which, "nkg": 1, "zones": [1, 1, 1, 1], "addr": [150], "dev": [["zone", 0, z, name, val]]}
        # structure: keygroup count x address layout x zone patterns
        for nkg, layouts in ADDRESS_LAYOUTS.items():
            for addr in layouts:
                pats = ZONE_PATTERNS if nkg < 3 else [p for p in ZONE_PATTERNS if sum(p) <= 2]
                if quick:
                    pats = pats[::3] + [pats[-1]]
                for zp in pats:
                    yield {"kind": "akai_program", "base": which, "nkg": nkg, "zones": list(zp), "addr": addr, "dev": []}
        # keygroups that are exact copies of one another
        for nkg, copies in ((2, [[0, 1]]), (3, [[0, 1]]), (3, [[0, 2]]), (3, [[1, 2]]), (3, [[0, 1], [0, 2]])):
            addr = [150 * (k + 1) for k in range(nkg)]
            yield {"kind": "akai_program", "base": which, "nkg": nkg, "zones": [1, 1, 0, 0], "addr": addr,
                   "dev": [["copykg", a, b] for a, b in copies]}
        if not quick:
            fl = [(n, k) for n, o, k in AP.PROGRAM_FIELDS if k not in ("name12", "u16") and n != "number_of_keygroups"]
            for (n1, k1), (n2, k2) in zip(fl, fl[1:]):
                for v1 in F.domain_values(k1)[::2]:
                    for v2 in F.domain_values(k2)[::2]:
                        yield {"kind": "akai_program", "base": which, "nkg": 1, "zones": [1, 0, 0, 0], "addr": [150],
                               "dev": [["hdr", n1, v1], ["hdr", n2, v2]]}
            kl = [(n, k) for n, o, k in AP.KEYGROUP_FIELDS if k != "u16"]
            for (n1, k1), (n2, k2) in zip(kl, kl[1:]):
                for v1 in F.domain_values(k1)[::2]:
                    for v2 in F.domain_values(k2)[::2]:
                        yield {"kind": "akai_program", "base": which, "nkg": 2, "zones": [1, 1, 0, 0], "addr": [300, 150],
                               "dev": [["kg", 1, n1, v1], ["kg", 1, n2, v2]]}


def build_program(case):
    v, kgs = program_base(case["base"], case["nkg"], tuple(case["zones"]))
    temper = [(3 * i + 1 + case["base"]) % 50 for i in range(12)]
    for d in case["dev"]:
        if d[0] == "hdr":
            v[d[1]] = d[2]
        elif d[0] == "temper":
            temper[d[1]] = d[2]
        elif d[0] == "kg":
            kgs[d[1]]["values"][d[2]] = d[3]
        elif d[0] == "zone":
            kgs[d[1]]["zones"][d[2]][d[3]] = d[4]
        elif d[0] == "copykg":
            # keygroup d[2] is an exact copy of keygroup d[1] (what "copy keygroup" leaves behind): every parameter, every zone
            import copy as _copy
            kgs[d[2]] = _copy.deepcopy(kgs[d[1]])
    img, path = program_image(v, kgs, temper, case["addr"])
    return img, path, program_expect(v, kgs, temper), "PFILE"


# ----------------------------------------------------------------------------- Roland sample
def roland_cases(quick):
    for which in (0, 1):
        base = {"points": [[11, 1], [22, 2], [333, 3], [44, 4], [555, 5]] if which == 0 else [[7, 255], [0, 0], [4000, 128], [1, 1], [4607, 254]],
                "mode": 3 if which == 0 else 6, "freq": 2 if which == 0 else 5, "stereo": which, "key": 60 + which}
        yield {"kind": "roland_sample", "base": base, "dev": []}
        for pi in range(5):
            for addr in (0, 1, 4607, 65536, 2 ** 24 - 1):
                for fine in (0, 1, 255):
                    b = dict(base)
                    b["points"] = [list(p) for p in base["points"]]
                    b["points"][pi] = [addr, fine]
                    yield {"kind": "roland_sample", "base": b, "dev": [["point", pi]]}
        for mode in range(7):
            yield {"kind": "roland_sample", "base": dict(base, mode=mode), "dev": [["mode", mode]]}
        for freq in range(6):
            for stereo in (0, 1):
                yield {"kind": "roland_sample", "base": dict(base, freq=freq, stereo=stereo), "dev": [["freq", freq]]}


def build_roland(case):
    b = case["base"]
    s = {"name": "SMPX", "chain": [2], "points": [p[0] for p in b["points"]], "fine": [p[1] for p in b["points"]], "mode": b["mode"],
         "freq": b["freq"], "stereo": b["stereo"], "key": b["key"], "seq": 1}
    model = {"volumes": [{"name": "VOL", "perfs": [0]}], "performances": {0: {"name": "PERF", "patches": [0]}},
             "patches": {0: {"name": "PATCH", "partials": [0]}}, "partials": {0: {"name": "PART", "samples": [0]}}, "samples": {0: s}}
    img = R.build_roland(model)[0]
    exp = [("sample_mode", "raw", "Stereo" if b["stereo"] else "Mono"), ("sampling_frequency", "u32", F.ROLAND_FREQ[b["freq"]]),
           ("loop_mode", "enum:roland_loop", b["mode"])]
    for nm, (addr, fine) in zip(("start_sample", "sustain_loop_start", "sustain_loop_end", "release_loop_start", "release_loop_end"), b["points"]):
        exp.append((f"{nm}/address", "u32", addr))
        exp.append((f"{nm}/fine", "u32", fine))
    return img, "VOL/PERF/SMPX", exp, "SMPX"


# ----------------------------------------------------------------------------- CDDA
def cdda_cases(quick):
    for positions in ([0, 1], [0, 2, 77], [3, 75, 76, 4500 if not quick else 150]):
        for r in (0, 3, 2352):
            yield {"kind": "cdda", "positions": positions, "tail": r}


def cdda_dense_cases(quick):
    """sheets of 99 one-sector tracks starting at EVERY position of a consecutive range (second and minute carries inside):
    the listed length of each track is 588 frames whatever its mm:ss:ff looks like"""
    starts = list(range(0, 4752, 99)) + [269901, 449900 - 99]
    if quick:
        starts = starts[:8] + [4455, 269901]
    for st in starts:
        yield {"kind": "cdda_dense", "start": st}


def check_cdda_dense(case):
    from smpl_extract.cuesheet import parse_cue_sheet
    from smpl_extract.cdda.image import CompactDiskAudioImageAdapter
    p0 = case["start"]
    tracks = [{"number": i + 1, "title": f"T{i + 1}", "indices": [(1, p0 + i)]} for i in range(99)]
    lines = [l + "\n" for l in Q.cue_lines("x.bin", tracks)]

    def build():
        image = CompactDiskAudioImageAdapter.from_bin_cue(Q.VirtualBin(Q.SECTOR * (p0 + 99)), parse_cue_sheet(list(lines)))
        image.set_routines({"make_safe_names": image.make_safe_names_routine, "make_export_names": image.make_export_names_routine})
        return image
    st, image = guarded(build, 30.0)
    if st != "ok":
        return False, "open-" + ("raised:" + exc_sig(image) if st == "exc" else "hang"), {"observed": repr(image)[:200]}
    for i in range(99):
        exp = [("num_channels", "u32", 2), ("sample_rate", "u32", 44100), ("num_audio_samples", "u32", 588)]
        st, out = guarded(lambda: tree.ls(image, f"T{i + 1}"), 30.0)
        r = compare(st, out, exp, f"T{i + 1}")
        if not r[0]:
            return r[0], r[1], dict(r[2] or {}, track=i + 1, position=p0 + i)
    return True, "cdda-dense-ok", None


def check_cdda(case):
    pos = case["positions"]
    binlen = Q.SECTOR * (pos[-1] + 2) + case["tail"]
    tracks = [{"number": i + 1, "title": f"T{i + 1}", "indices": [(1, p)]} for i, p in enumerate(pos)]
    with scratch_dir("c20") as d:
        with open(os.path.join(d, "disc.bin"), "wb") as f:
            f.write(Q.bin_bytes(binlen))
        cue = os.path.join(d, "disc.cue")
        with open(cue, "w") as f:
            f.write(Q.cue_text("disc.bin", tracks))
        for i in range(len(pos)):
            if i + 1 < len(pos):
                frames = 588 * (pos[i + 1] - pos[i])
            else:
                frames = 588 * ((binlen - Q.SECTOR * pos[i]) // Q.SECTOR)
            exp = [("num_channels", "u32", 2), ("sample_rate", "u32", 44100), ("num_audio_samples", "u32", frames)]
            st, out = guarded(lambda: tree.ls(cue, f"T{i + 1}"), 30.0)
            r = compare(st, out, exp, f"T{i + 1}")
            if not r[0]:
                return r
    return True, "cdda-ok", None


# ----------------------------------------------------------------------------- siblings whose names differ only in letter case
CASE_TITLES = [["Intro", "INTRO"], ["INTRO", "Intro"], ["intro", "Intro", "INTRO"], ["A b", "A B", "a b"], ["Track x", "TRACK X", "track X", "Track X"],
               ["T1", "t1"], ["loop.L", "LOOP.L", "Loop.l"]]


def cdda_case_cases(quick):
    for titles in CASE_TITLES:
        yield {"kind": "cdda_case", "titles": titles}


def check_cdda_case(case):
    """tracks of different lengths whose titles differ only in letter case: the listing of each printed name shows THAT track"""
    titles = case["titles"]
    pos = [0]
    for i in range(len(titles)):
        pos.append(pos[-1] + i + 1)
    binlen = Q.SECTOR * pos[-1]
    tracks = [{"number": i + 1, "title": t, "indices": [(1, pos[i])]} for i, t in enumerate(titles)]
    with scratch_dir("c20") as d:
        with open(os.path.join(d, "disc.bin"), "wb") as f:
            f.write(Q.bin_bytes(binlen))
        cue = os.path.join(d, "disc.cue")
        with open(cue, "w") as f:
            f.write(Q.cue_text("disc.bin", tracks))
        for i, t in enumerate(titles):
            exp = [("num_channels", "u32", 2), ("sample_rate", "u32", 44100), ("num_audio_samples", "u32", 588 * (i + 1))]
            st, out = guarded(lambda: tree.ls(cue, t), 30.0)
            r = compare(st, out, exp, t)
            if not r[0]:
                return r[0], r[1], dict(r[2] or {}, track=i + 1, title=t)
    return True, "cdda-case-ok", None


def roland_case_cases(quick):
    for names in (["SmpX", "SMPX"], ["SMPX", "SmpX"], ["smpx", "Smpx", "SMPX"]):
        yield {"kind": "roland_case", "names": names}


def check_roland_case(case):
    names = case["names"]
    samples, exps = {}, []
    for i, nm in enumerate(names):
        pts = [[11 + i, 1 + i], [22 + i, 2], [333 + 7 * i, 3], [44, 4 + i], [555 + i, 5]]
        samples[i] = {"name": nm, "chain": [2 + i], "points": [p[0] for p in pts], "fine": [p[1] for p in pts], "mode": (3, 6, 1)[i],
                      "freq": (2, 5, 0)[i], "stereo": i % 2, "key": 60 + i, "seq": 1 + i}
        exp = [("sample_mode", "raw", "Stereo" if i % 2 else "Mono"), ("sampling_frequency", "u32", F.ROLAND_FREQ[(2, 5, 0)[i]]),
               ("loop_mode", "enum:roland_loop", (3, 6, 1)[i])]
        for pn, (addr, fine) in zip(("start_sample", "sustain_loop_start", "sustain_loop_end", "release_loop_start", "release_loop_end"), pts):
            exp.append((f"{pn}/address", "u32", addr))
            exp.append((f"{pn}/fine", "u32", fine))
        exps.append(exp)
    model = {"volumes": [{"name": "VOL", "perfs": [0]}], "performances": {0: {"name": "PERF", "patches": [0]}},
             "patches": {0: {"name": "PATCH", "partials": [0]}}, "partials": {0: {"name": "PART", "samples": list(range(len(names)))}}, "samples": samples}
    img = R.build_roland(model)[0]
    st, image = guarded(lambda: tree.open_image(img), 30.0)
    if st != "ok":
        return False, "open-" + st, {"observed": repr(image)[:200]}
    for nm, exp in zip(names, exps):
        st, out = guarded(lambda: tree.ls(image, "VOL/PERF/" + nm), 30.0)
        r = compare(st, out, exp, nm)
        if not r[0]:
            return r[0], r[1], dict(r[2] or {}, name=nm)
    return True, "roland-case-ok", None


# ----------------------------------------------------------------------------- compare
def compare(st, out, exp, header_name):
    if st == "hang":
        return False, "hang", {"observed": "non-termination"}
    if st == "exc":
        return False, "raised:" + exc_sig(out), {"observed": repr(out)[:300]}
    if "was not found" in out:
        return False, "item-not-found", {"observed": out[:200]}
    header, vals, capped = F.parse_info(out)
    if capped:
        return True, "capped(>300 rows): not required", None
    if "__duplicates__" in vals:
        return False, "key-printed-twice", {"keys": vals["__duplicates__"][:200]}
    if header_name is not None and not header.startswith(header_name):
        return False, "header-name", {"expected": header_name, "observed": header[:80]}
    for path, kind, stored in exp:
        if path not in vals:
            return False, "value-missing", {"key": path, "stored": stored, "have_keys": len(vals)}
        ok = (vals[path] == stored) if kind == "raw" else F.matches(kind, stored, vals[path])
        if not ok:
            return False, "value-differs", {"key": path, "kind": kind, "stored": stored, "printed": vals[path]}
    return True, f"ok:{len(exp)}values", None


def run_case(case):
    k = case["kind"]
    if k == "cdda":
        return check_cdda(case)
    if k == "cdda_dense":
        return check_cdda_dense(case)
    if k == "cdda_case":
        return check_cdda_case(case)
    if k == "roland_case":
        return check_roland_case(case)
    img, path, exp, hname = {"akai_sample": build_sample, "akai_program": build_program, "roland_sample": build_roland}[k](case)
    def go():
        image = tree.open_image(img)
        p = path
        if p is None:
            from mcv.checks.c10 import parse_table
            names = parse_table(tree.ls(image, "A:/VOL")) or []
            if len(names) != 1:
                return "was not found: the volume lists %r" % (names,)
            p = "A:/VOL/" + names[0]
        return tree.ls(image, p)
    st, out = guarded(go, 30.0)
    return compare(st, out, exp, hname)


class Check(CheckBase):
    id = "C20"
    level = "exploration"
    title = "`ls` reports the header values stored in the image for samples and programs"
    rule = ("two distinct base assignments in which every field holds its own value; every field deviated through the "
            "boundary values of its stored domain (u8 {0,1,127,128,254,255}, s8 bytes {80,81,FF,00,01,7E,7F}, switches "
            "{0,1,2,255}, every enumeration member, note bytes, u32 {0,1,2^16,2^31,2^32-1}) with the others at base: AKAI sample "
            "header (type, loop mode, tuning, counts/markers, rate incl. 0, each of the 8 loop slots x duration/at values), "
            "names over all 41 AKAI characters in the sample name, file name, program name and zone sample names, "
            "AKAI program header (all 46 parameters + 12 temperaments), keygroup parameters of keygroup 0 and 1, zone velocity "
            "ranges, keygroup count 1..3 x address layouts (contiguous, permuted, gaps, non-multiples of 150, first address != "
            "150) x all 16 zone-name patterns (<=2 zones with 3 keygroups), keygroups that are exact copies of one another, Roland sample (5 points x address/fine corners, 7 "
            "loop modes, 6 frequencies x mono/stereo), CDDA tracks, sibling CDDA tracks / Roland samples whose names differ only in letter case (7 + 3 name sets, each item with its own values); thorough: all pairs of adjacent fields. Printed tree parsed "
            "back and compared with printed forms derived from the stored bytes. non-trivial = every deviated case")
    assumptions = ["enumeration labels are compared case- and punctuation-insensitively with the documented labels",
                   "out-of-domain enumeration bytes and listings over the 300-row cap carry no requirement"]

    def shards(self):
        cases = list(sample_cases(self.quick)) + list(program_cases(self.quick)) + list(cdda_cases(self.quick)) + list(cdda_dense_cases(self.quick)) \
            + list(cdda_case_cases(self.quick)) + list(roland_case_cases(self.quick))
        rc = list(roland_cases(self.quick))
        if self.quick:
            rc = rc[::3]
        return self.chunk(cases, 60) + self.chunk(rc, 6)

    def run_shard(self, shard, rep: Report):
        cases = [shard["replay_case"]] if "replay_case" in shard else shard["cases"]
        prev = None
        for case in cases:
            if "_prelude" in case:
                # replay: a listing may only go wrong after another listing in the same process
                run_case(case["_prelude"])
                case = {k: v for k, v in case.items() if k != "_prelude"}
            ok, klass, detail = run_case(case)
            if not ok and prev is not None:
                case = dict(case, _prelude=prev)
            prev = {k: v for k, v in case.items() if k != "_prelude"}
            rep.case(case, ok=ok, klass=f"{case['kind']}:{klass}", nontrivial=bool(case.get("dev")) or case["kind"] in ("cdda", "cdda_dense", "cdda_case", "roland_case"),
                     detail=detail, sig=f"{case['kind']}:{klass}" + (":" + str(detail.get("key")) if detail and "key" in detail else ""))
