"""C15 -- on a truncated image every reported file is a well-formed prefix (crash-point enumeration)."""
import os

from mcv.engine import core, tree
from mcv.engine.core import CheckBase, Report, exc_sig, guarded, scratch_dir
from mcv.gen import akai as A
from mcv.gen import roland as R
from mcv.gen import cue as Q
from mcv.ref import riff

S = A.SECTOR
HDR_FIELD_OFFS = [0, 2, 3, 15, 19, 20, 21, 26, 30, 34, 38, 50, 134, 138, 140]


# ----------------------------------------------------------------------------- subjects
def akai_big():
    spec = {"parts": [
        {"vols": [
            {"name": "VOL1", "dir": [3], "files": [
                {"name": "ONE", "n": 3000, "chain": [4], "seq": 1},
                {"name": "TWO", "n": 6000, "chain": [7, 5], "seq": 2},
                {"name": "PAD-L", "n": 2000, "chain": [6], "seq": 3},
                {"name": "PAD-R", "n": 2000, "chain": [8], "seq": 4}]},
            {"name": "VOL2", "dir": [12], "files": [{"name": "THREE", "n": 12218, "chain": [9, 10, 11], "seq": 5},
                                                     {"name": "AFTER", "n": 700, "chain": [13], "seq": 7}]}]},
        {"vols": [{"name": "VOLB", "dir": [3], "files": [{"name": "LAST", "n": 4026, "chain": [4], "seq": 6}]}]}]}
    return spec


def akai_small():
    return {"parts": [{"size": 8, "vols": [{"name": "VOL", "dir": [3], "files": [
        {"name": "ONE", "n": 3000, "chain": [4], "seq": 1},
        {"name": "PAD-L", "n": 1500, "chain": [5], "seq": 2},
        {"name": "PAD-R", "n": 1500, "chain": [6], "seq": 3}]}]}]}


def akai_pair():
    """an L/R pair whose halves span five sectors each (left first on the disc): a cut inside the right half lies several
    transcoder blocks after the start of both halves"""
    return {"parts": [{"size": 16, "vols": [{"name": "VOL", "dir": [3], "files": [
        {"name": "PAD-L", "n": 20000, "chain": [4, 5, 6, 7, 8], "seq": 1},
        {"name": "PAD-R", "n": 20000, "chain": [9, 10, 11, 12, 13], "seq": 2},
        {"name": "TAIL", "n": 500, "chain": [14], "seq": 3}]}]}]}


def akai_twins():
    """two volumes whose names are equal once they are made file-system safe, holding samples of the same names; the table and
    the data of the volume that comes FIRST in the partition header lie BEHIND those of the second (a cut between them leaves
    the first volume without its table): which volume a reported path belongs to must not depend on where the image ends"""
    return {"parts": [{"size": 14, "vols": [
        {"name": "DRUMS+1", "dir": [8], "files": [{"name": "KICK", "n": 3000, "chain": [9], "seq": 1}, {"name": "SNARE", "n": 5000, "chain": [11, 10], "seq": 2}]},
        {"name": "DRUMS 1", "dir": [3], "files": [{"name": "KICK", "n": 3500, "chain": [4], "seq": 3}, {"name": "SNARE", "n": 6000, "chain": [6, 5], "seq": 4}]}]}]}


def rekey_by_complete_export(img, samples):
    """paths of the complete image's own export -> the sample whose audio the file holds (names that collide are numbered by the
    tool; the numbering of the COMPLETE image is the reference a cut image is compared with)"""
    res = tree.full_run(img, cpu_s=40.0, ls_paths=())
    out = {}
    for p in res.get("reported", []):
        w = riff.validate(res["files"].get(p, b""))
        hit = [k for k, v in samples.items() if not w.errors and v["pcm"] == w.data]
        if len(hit) == 1:
            out[p[:-4]] = samples[hit[0]]
    return out if len(out) == len(samples) else samples


def akai_subject(spec):
    model = A.model_from_spec(spec)
    img, layout = A.build_akai(model)
    # per sample: pcm and the byte offset after which everything it needs is present (whole sectors, conservative)
    samples = {}
    P = 0
    for pi, part in enumerate(model["partitions"]):
        for vi, vol in enumerate(part["volumes"]):
            for fi, f in enumerate(vol["files"]):
                if f.get("kind") != "sample":
                    continue
                # exactly what the statement names: the partition header (with the volume entry), the file's OWN
                # directory entry (entries are 24 bytes, in the first directory sector here), and its data sectors
                # (the last one up to the last byte used)
                own_entry_end = P + vol["dir"]["chain"][0] * S + 24 * (fi + 1)
                nbytes = len(f["data"])
                data_end = 0
                for k, c in enumerate(f["chain"]):
                    used = min(S, nbytes - k * S)
                    if used > 0:
                        data_end = max(data_end, P + c * S + used)
                need = max(P + A.HDR_END, own_entry_end, data_end)
                key = f"{'AB'[pi]}/{vol['name']}/{f['name']}"
                samples[key] = {"pcm": A.words_bytes(f["words"][f["start"]:f["end"]]), "need": need}
        P += part["size"] * S
    bounds = set()
    for k, v in layout.items():
        if isinstance(v, tuple) and len(v) == 2 and isinstance(v[0], int):
            bounds.add(v[0])
            bounds.add(v[0] + v[1])
            if k.endswith(".data"):
                for o in HDR_FIELD_OFFS:
                    bounds.add(v[0] + o)
        if k.endswith(".used_sectors"):
            pi = int(k[1:k.index(".")])
            base = sum(model["partitions"][j]["size"] * S for j in range(pi))
            for sec in v:
                bounds.add(A.sat_word_offset(layout, pi, sec))
    for pi in range(len(model["partitions"])):
        base = sum(model["partitions"][j]["size"] * S for j in range(pi))
        for o in (0, 2, 4, 198, 200, 202, 218, 1802, 1808, A.HDR_END, 3 * S):
            bounds.add(base + o)
    return img, samples, sorted(b for b in bounds if 0 <= b <= len(img))


def roland_subject():
    samples = {0: {"name": "FWD", "chain": [3, 2], "points": [5, 5, 6000, 5, 100], "mode": 2, "seq": 1},
               1: {"name": "REV", "chain": [4], "points": [0, 0, 3999, 0, 100], "mode": 5, "seq": 2},
               2: {"name": "REL", "chain": [5, 6], "points": [1, 1, 900, 1, 9215], "mode": 1, "seq": 3}}
    model = {"volumes": [{"name": "VOL", "perfs": [0]}], "performances": {0: {"name": "PERF", "patches": [0]}},
             "patches": {0: {"name": "PATCH", "partials": [0]}}, "partials": {0: {"name": "PART", "samples": [0, 1, 2]}},
             "samples": samples}
    img, layout = R.build_roland(model)
    out = {}
    for i, s in samples.items():
        need = max(R.DATA_FAT_OFF + (c + 1) * R.CLUSTER for c in s["chain"])
        out[f"VOL/PERF/{s['name']}"] = {"pcm": R.sample_pcm(s), "need": max(need, R.DATA_FAT_OFF)}
    bounds = {0, 4, 32, 64, 256, 276, 286, 0x200, R.FAT_OFF, R.FAT_OFF + 2, R.FAT_OFF + 4, R.FAT_OFF + 14, R.FAT_OFF + 2 * R.FAT_N,
              R.DATA_FAT_OFF, len(img)}
    for k, v in layout.items():
        if isinstance(v, tuple) and len(v) == 2:
            bounds.add(v[0])
            bounds.add(v[0] + v[1])
    return img, out, sorted(bounds)


TRACK_POS = [0, 3, 5]
BIN_LEN = Q.SECTOR * 9 + 2


def cdda_subject():
    b = Q.bin_bytes(BIN_LEN)
    samples = {}
    ends = [Q.SECTOR * 3, Q.SECTOR * 5, BIN_LEN - (BIN_LEN - Q.SECTOR * 5) % 4]
    for i, (p, e) in enumerate(zip(TRACK_POS, ends)):
        samples[f"T{i + 1}"] = {"pcm": b[Q.SECTOR * p:e], "need": e if i < 2 else BIN_LEN}
    bounds = sorted({0, BIN_LEN} | {Q.SECTOR * k for k in range(10)})
    return b, samples, bounds


_SUBJ = {}


def subject(key):
    if key not in _SUBJ:
        if key == "akai_big":
            _SUBJ[key] = akai_subject(akai_big())
        elif key == "akai_small":
            _SUBJ[key] = akai_subject(akai_small())
        elif key == "akai_pair":
            _SUBJ[key] = akai_subject(akai_pair())
        elif key == "akai_twins":
            img, samples, bounds = akai_subject(akai_twins())
            _SUBJ[key] = (img, rekey_by_complete_export(img, samples), bounds)
        elif key == "akai_small_mdx":
            # the small image inside an MDX wrapper (64-byte header, payload, 300 bytes of descriptor behind it)
            from mcv.gen import containers as C
            img, samples, bounds = akai_subject(akai_small())
            s2 = {k: dict(v, need=v["need"] + 64) for k, v in samples.items()}
            _SUBJ[key] = (C.mdx(img, descriptor=300), s2, sorted({b + 64 for b in bounds} | {64, 64 + len(img)}))
        elif key == "akai_big2352":
            # the same image delivered in 2352-byte raw sectors: a cut leaves whole raw sectors (2048 image bytes each) and a
            # partial one; a sample is complete when every raw sector holding one of its bytes is
            from mcv.gen import containers as C
            img, samples, bounds = akai_subject(akai_big())
            raw = C.mode1_2352(img)
            s2 = {k: dict(v, need=-(-v["need"] // 2048) * 2352) for k, v in samples.items()}
            _SUBJ[key] = (raw, s2, sorted({(b // 2048) * 2352 for b in bounds} | {-(-b // 2048) * 2352 for b in bounds}))
        elif key == "roland":
            _SUBJ[key] = roland_subject()
        else:
            _SUBJ[key] = cdda_subject()
    return _SUBJ[key]


def run_cut(key, cut):
    img, samples, bounds = subject(key)
    if key == "cdda":
        with scratch_dir("c15") as d:
            with open(os.path.join(d, "disc.bin"), "wb") as f:
                f.write(img[:cut])
            cue = os.path.join(d, "disc.cue")
            tracks = [{"number": i + 1, "title": f"T{i + 1}", "indices": [(1, p)]} for i, p in enumerate(TRACK_POS)]
            with open(cue, "w") as f:
                f.write(Q.cue_text("disc.bin", tracks))
            res = tree.full_run(cue, cpu_s=30.0, ls_paths=())
    else:
        res = tree.full_run(img[:cut], cpu_s=40.0, ls_paths=())
    if res["status"] == "hang":
        return False, "hang", {"observed": "non-termination"}
    # an exception is an allowed way to end; what was reported before it still counts
    files, reported = res["files"], res["reported"]
    seen = set()
    for p in reported:
        b = files.get(p)
        if b is None:
            return False, "reported-but-missing", {"path": p}
        w = riff.validate(b)
        if w.errors:
            return False, "reported-file-invalid", {"path": p, "errors": w.errors[:2]}
        stem = p[:-4]
        chans = riff.split_channels(w.data, w.fmt["channels"])
        if w.fmt["channels"] == 1 or key == "cdda":
            full = samples.get(stem)
            if full is None:
                return False, "unknown-path", {"path": p}
            data = w.data
            if full["pcm"][:len(data)] != data:
                return False, "not-a-prefix", {"path": p, "len": len(data), "full_len": len(full["pcm"])}
            if cut >= full["need"] and len(data) != len(full["pcm"]):
                return False, "incomplete-though-before-cut", {"path": p, "len": len(data), "full_len": len(full["pcm"]), "cut": cut, "need": full["need"]}
            seen.add(stem)
        else:
            # stereo file <stem>.wav from <stem>-L / <stem>-R
            fl, fr = samples.get(stem + "-L"), samples.get(stem + "-R")
            if fl is None or fr is None:
                return False, "unknown-stereo-path", {"path": p}
            for c, full, nm in ((chans[0], fl, "L"), (chans[1], fr, "R")):
                k = min(len(c), len(full["pcm"]))
                if c[:k] != full["pcm"][:k] or len(c) > len(full["pcm"]):
                    return False, "not-a-prefix", {"path": p, "channel": nm, "len": len(c), "full_len": len(full["pcm"])}
            if cut >= max(fl["need"], fr["need"]) and len(chans[0]) != len(fl["pcm"]):
                return False, "incomplete-though-before-cut", {"path": p, "len": len(chans[0]), "full_len": len(fl["pcm"])}
            seen.update((stem + "-L", stem + "-R"))
    # files completely before the cut must have been exported, however the run ended
    if True:
        for k, s in samples.items():
            if cut >= s["need"] and k not in seen:
                return False, "complete-file-not-exported", {"sample": k, "cut": cut, "need": s["need"], "reported": reported[:6]}
    kl = f"{'error-end' if res['status'] == 'exc' else 'ok'}:{len(reported)}reported"
    return True, kl, None


class Check(CheckBase):
    id = "C15"
    level = "fault_enumeration"
    title = "On a truncated image every reported file is a well-formed prefix"
    rule = ("images: AKAI (2 partitions, directory before and -- by explicit layout -- after the data, files of 1, 2 "
            "(fragmented) and 3 sectors, L/R pair, a file filling its last sector), a small 64 KiB AKAI image, Roland (3 "
            "samples, permuted chain, reverse mode), CDDA (3 tracks, real files), an AKAI image with two volumes of colliding export names and equal sample names whose first volume is stored behind the second (paths judged against the complete image's own numbering), the small AKAI image inside an MDX wrapper, the big AKAI image delivered in 2352-byte raw sectors (cuts in the raw file: every 1009th byte, the raw sectors holding the second partition header densely). Cut points: every structure boundary named "
            "by the writer's layout map (partition header fields, used SAT words, directory entries, sample header fields, "
            "sector/cluster boundaries) -1/0/+1, plus every 509th byte (quick); thorough: EVERY byte of the small AKAI image "
            "and of the CDDA bin, every 16th byte of the big AKAI image, every 4096th of the Roland image + boundaries. Oracle: "
            "terminates; every Exported path exists, passes the RIFF walker, and its PCM (each channel of a stereo file) is a "
            "prefix of the full audio; a file whose partition header, directory sectors and data sectors all lie before the "
            "cut is exported complete. non-trivial = cut inside the image (not at its end)")
    assumptions = ["'lies before the cut' is decided conservatively on whole sectors/clusters from the layout map",
                   "an exception is an allowed way for the run to end; files reported before it still count"]

    def shards(self):
        cases = []
        for key in ("akai_small", "akai_big", "akai_pair", "akai_twins", "roland", "cdda", "akai_big2352", "akai_small_mdx"):
            img, samples, bounds = subject(key)
            cuts = set()
            for b in bounds:
                for d in (-1, 0, 1):
                    if 0 <= b + d <= len(img):
                        cuts.add(b + d)
            stride = {"akai_small": 509, "akai_big": 509, "akai_pair": 509, "akai_twins": 257, "roland": 65521, "cdda": 509, "akai_big2352": 1009, "akai_small_mdx": 509}[key]
            if not self.quick:
                stride = {"akai_small": 1, "akai_big": 16, "akai_pair": 16, "akai_twins": 8, "roland": 4096, "cdda": 1, "akai_big2352": 64, "akai_small_mdx": 7}[key]
            lo = R.DATA_FAT_OFF - 70000 if key == "roland" and self.quick else 0
            cuts.update(range(lo, len(img) + 1, stride))
            if key == "roland":
                cuts.update(range(R.DATA_FAT_OFF, len(img) + 1, 509 if self.quick else 64))
            if key in ("akai_big", "akai_big2352"):
                PB = A.build_akai(A.model_from_spec(akai_big()))[1]["p1.size"][0]      # where the second partition begins
            if key == "akai_big":
                # the header of the second partition: volume table and the first SAT words, densely
                base = PB
                cuts.update(range(base, base + 2000, 3 if self.quick else 1))
            if key == "akai_big2352":
                # the raw sectors that hold the header of the second partition (volume table, first SAT words), densely
                k0 = PB // 2048
                cuts.update(range(k0 * 2352, (k0 + 2) * 2352, 5 if self.quick else 1))
            cases += [{"subject": key, "cut": c} for c in sorted(cuts)]
        small = [c for c in cases if c["subject"] != "roland"]
        rol = [c for c in cases if c["subject"] == "roland"]
        return self.chunk(small, 100) + self.chunk(rol, 10)

    def run_shard(self, shard, rep: Report):
        cases = [shard["replay_case"]] if "replay_case" in shard else shard["cases"]
        for case in cases:
            ok, klass, detail = run_cut(case["subject"], case["cut"])
            img = subject(case["subject"])[0]
            rep.case(case, ok=ok, klass=klass, nontrivial=case["cut"] < len(img), detail=detail, sig=f"{case['subject']}:{klass}")
