"""C11 -- sample streams sharing one image file handle do not disturb one another.

All interleavings of per-participant call programs (block reads, seeks, lazy directory
realisations, transcoder steps) on ONE freshly opened image object per schedule, compared with the
same program run alone on a fresh image object.
"""
import io
import itertools

from mcv.engine import core, tree
from mcv.engine.core import CheckBase, Report, exc_sig, guarded
from mcv.gen import akai as A
from mcv.gen import roland as R
from mcv.gen import containers as C
from mcv.gen import cue as Q

S = A.SECTOR


# ----------------------------------------------------------------------------- images
def akai_payload():
    VOL1_FILES = [
                {"name": "FRAG", "n": 6000, "chain": [6, 4], "seq": 1},
                {"name": "NEXT", "n": 5000, "chain": [5, 7], "seq": 2},
                {"name": "PAD-L", "n": 4100, "chain": [9, 8], "seq": 3},
                {"name": "PAD-R", "n": 4100, "chain": [10, 11], "seq": 4},
                {"name": "CONT", "n": 12000, "chain": [14, 15, 16], "seq": 8},
                # an L/R pair of three sectors each: the left half contiguous, the right half fragmented (what is true for
                # one file's sector list at some index says nothing about another file's)
                {"name": "WIDE-L", "n": 12000, "chain": [17, 18, 19], "seq": 9},
                {"name": "WIDE-R", "n": 12000, "chain": [20, 22, 21], "seq": 10},
                # five sectors: one read can hold two and more WHOLE sectors between its first and last piece
                {"name": "LONG5", "n": 20000, "chain": [27, 25, 28, 26, 29], "seq": 11},
                # a dual-mono pair: two directory entries naming ONE chain (the second entry is an alias of the first)
                {"name": "DUAL-L", "n": 7000, "chain": [31, 30], "seq": 12},
                {"name": "DUAL-R", "n": 7000, "chain": [31, 30], "seq": 12, "alias": True}]
    spec = {"parts": [
        {"vols": [
            {"name": "VOL1", "dir": [3], "files": VOL1_FILES},
            {"name": "VOL2", "dir": [12], "files": [{"name": "OTHER", "n": 300, "chain": [13], "seq": 5}]},
            # a second volume entry naming VOL1's directory (legal: the same start sector under two names)
            {"name": "VOL3", "dir": [3], "files": VOL1_FILES, "alias": True}]},
        {"vols": [
            {"name": "VOLB", "dir": [4], "files": [
                {"name": "BSMP", "n": 4500, "chain": [6, 5], "seq": 6},
                {"name": "BTWO", "n": 100, "chain": [3], "seq": 7}]}]}]}
    return A.build_akai(A.model_from_spec(spec))[0]


def roland_payload():
    samples = {0: {"name": "FWD", "chain": [3, 2], "points": [5, 5, 6000, 5, 6000], "mode": 2, "seq": 1},
               1: {"name": "REV", "chain": [4, 6], "points": [0, 0, 5999, 0, 5999], "mode": 5, "seq": 2},
               2: {"name": "ELSE", "chain": [5], "points": [0, 0, 99, 0, 99], "mode": 0, "seq": 3},
               3: {"name": "CONT", "chain": [7, 8, 9], "points": [0, 0, 13000, 0, 13000], "mode": 2, "seq": 4},
               # leading-cluster offset > 0 and referenced from both performances (realised again by `ls VOL/PERF1`)
               4: {"name": "TOP", "chain": [12, 10, 11], "cluster_top": 1, "points": [3, 3, 9000, 3, 9000], "mode": 2, "seq": 5},
               # two samples living in ONE fragmented chain (same first cluster), told apart by their leading-cluster offset
               5: {"name": "HALFA", "chain": [13, 16, 14, 17], "cluster_top": 0, "points": [0, 0, 9000, 0, 9000], "mode": 2, "seq": 6},
               6: {"name": "HALFB", "chain": [13, 16, 14, 17], "cluster_top": 2, "points": [1, 1, 9001, 1, 9001], "mode": 2, "seq": 6},
               # a second reverse-mode sample and a reverse-mode L/R pair (two reversed views alive at the same time)
               7: {"name": "REV2", "chain": [19, 18], "points": [2, 2, 7001, 2, 7001], "mode": 6, "seq": 7},
               8: {"name": "RV -L", "chain": [20, 21], "points": [0, 0, 8999, 0, 8999], "mode": 5, "seq": 8},
               9: {"name": "RV -R", "chain": [23, 22], "points": [0, 0, 8999, 0, 8999], "mode": 5, "seq": 9},
               # forward samples whose window IS their file: from word 0 to the last word of the chain, and one word beyond it
               10: {"name": "WHOLE", "chain": [25, 24], "points": [0, 0, 9215, 0, 9215], "mode": 2, "seq": 10},
               11: {"name": "OVER", "chain": [26], "points": [0, 0, 4608, 0, 4608], "mode": 2, "seq": 11}}
    model = {"volumes": [{"name": "VOL", "perfs": [0, 1]}],
             "performances": {0: {"name": "PERF0", "patches": [0]}, 1: {"name": "PERF1", "patches": [1]}},
             "patches": {0: {"name": "PATCH0", "partials": [0, 2, 3]}, 1: {"name": "PATCH1", "partials": [1]}},
             "partials": {0: {"name": "PART0", "samples": [0, 1, 3, 4]}, 1: {"name": "PART1", "samples": [2, 4, 6]},
                          2: {"name": "PART2", "samples": [5, 7, 8, 9]}, 3: {"name": "PART3", "samples": [10, 11]}},   # the two halves are reached through different performances
             "samples": samples}
    return R.build_roland(model)[0]


_CACHE = {}


def payload(kind):
    if kind not in _CACHE:
        if kind == "akai":
            _CACHE[kind] = akai_payload()
        elif kind == "akai2352":
            _CACHE[kind] = C.mode1_2352(akai_payload())
        elif kind == "akai2352_scratched":
            # one raw sector inside FRAG (second quarter of AKAI sector 4 = raw sector 17) has a wiped 12-byte sync pattern; its
            # 2048 data bytes are intact. NEXT, the other partition and every directory lie behind it in the file
            b = bytearray(C.mode1_2352(akai_payload()))
            b[17 * 2352:17 * 2352 + 12] = bytes(12)
            _CACHE[kind] = bytes(b)
        elif kind == "roland":
            _CACHE[kind] = roland_payload()
        elif kind == "roland_cut":
            # the image file ends 5000 bytes into the only cluster of OVER (cluster 26, the physically last one)
            _CACHE[kind] = roland_payload()[:R.DATA_FAT_OFF + R.CLUSTER * 26 + 5000]
        elif kind.startswith("roland_co"):
            # numeric coincidence: the left half's start point (in bytes) equals the address of the right half's first cluster
            # in the data area (k clusters), so that position values of different coordinate systems meet while both are read
            k = int(kind[len("roland_co"):])
            cw = R.CLUSTER_WORDS
            smp = {0: {"name": "CO -L", "chain": list(range(10, 10 + k + 2)), "points": [k * cw, k * cw, k * cw + 8999, k * cw, k * cw + 8999], "mode": 2, "seq": 1},
                   1: {"name": "CO -R", "chain": [k, k + 1], "points": [0, 0, 8999, 0, 8999], "mode": 2, "seq": 2},
                   2: {"name": "FWD", "chain": [30, 31], "points": [5, 5, 6000, 5, 6000], "mode": 2, "seq": 3}}
            model = {"volumes": [{"name": "VOL", "perfs": [0]}], "performances": {0: {"name": "PERF0", "patches": [0]}},
                     "patches": {0: {"name": "PATCH0", "partials": [0]}}, "partials": {0: {"name": "PART0", "samples": [0, 1, 2]}},
                     "samples": smp}
            _CACHE[kind] = R.build_roland(model)[0]
        elif kind == "akai_cut":
            # the image file ends inside the second sector of WIDE-R (sector 22 of chain 20, 22, 21): an incomplete copy
            _CACHE[kind] = akai_payload()[:22 * S + 1000]
    return _CACHE[kind]


def _real_file(kind, d):
    """the image as a REAL file below directory d (the tool is given paths; real file objects buffer and have descriptors,
    BytesIO objects do not)"""
    import os
    if kind == "cdda_file":
        tracks = [{"number": 1, "title": "ONE", "indices": [(1, 0)]}, {"number": 2, "title": "TWO", "indices": [(1, 3)]},
                  {"number": 3, "title": "THREE", "indices": [(1, 5)]}]
        with open(os.path.join(d, "x.bin"), "wb") as f:
            f.write(Q.bin_bytes(Q.SECTOR * 8 + 6))
        with open(os.path.join(d, "x.cue"), "w") as f:
            f.write(Q.cue_text("x.bin", tracks))
        return os.path.join(d, "x.cue")
    with open(os.path.join(d, "image.img"), "wb") as f:
        f.write(payload(kind[:-5]))
    return os.path.join(d, "image.img")


def open_fresh(kind, scratch=None):
    if kind.endswith("_file"):
        img = tree.open_image(_real_file(kind, scratch))
    elif kind == "cdda":
        from smpl_extract.cuesheet import parse_cue_sheet
        from smpl_extract.cdda.image import CompactDiskAudioImageAdapter
        tracks = [{"number": 1, "title": "ONE", "indices": [(1, 0)]}, {"number": 2, "title": "TWO", "indices": [(1, 3)]},
                  {"number": 3, "title": "THREE", "indices": [(1, 5)]}]
        sheet = parse_cue_sheet([l + "\n" for l in Q.cue_lines("x.bin", tracks)])
        img = CompactDiskAudioImageAdapter.from_bin_cue(io.BytesIO(Q.bin_bytes(Q.SECTOR * 8 + 6)), sheet)
    else:
        img = tree.open_image(payload(kind))
    img.set_routines({"make_safe_names": img.make_safe_names_routine, "make_export_names": img.make_export_names_routine})
    return img


def find(img, path):
    node = img
    for tok in path:
        node = next(c for c in node.children if c.name.strip() == tok)
    return node


class Ctx:
    """one image object; participants acquire their streams lazily at their first step"""

    def __init__(self, kind):
        self.kind = kind
        self.scratch = None
        if kind.endswith("_file"):
            import os
            import tempfile
            self.scratch = tempfile.mkdtemp(prefix="mcv-c11-", dir="/dev/shm" if os.path.isdir("/dev/shm") else None)
        self.img = open_fresh(kind, self.scratch)
        self.streams = {}
        self.transcoders = {}

    def close(self):
        if self.scratch:
            import shutil
            shutil.rmtree(self.scratch, ignore_errors=True)
            self.scratch = None

    def __del__(self):
        self.close()

    def stream(self, path, view=0):
        # (view: a further stream of the SAME sample, obtained by asking the element again)
        if (path, view) not in self.streams:
            el = find(self.img, path)
            self.streams[(path, view)] = el.to_generalized().data_streams[0].stream
        return self.streams[(path, view)]

    def transcoder(self, pl, pr):
        key = (pl, pr)
        if key not in self.transcoders:
            from smpl_extract.generalized.sample import combine_stereo
            from smpl_extract.transcoder import make_transcoder
            from smpl_extract.data_streams import StreamEncoding, Endianess
            st = combine_stereo(find(self.img, pl).to_generalized(), find(self.img, pr).to_generalized(), "ST")
            self.transcoders[key] = iter(make_transcoder(st.data_streams, StreamEncoding(Endianess.LITTLE, 2, 2)))
        return self.transcoders[key]

    def do(self, part, op):
        """returns bytes/str observation of that step"""
        if self.kind.endswith(("_scratched", "_cut")) and op[0] in ("read", "seek"):
            # on a damaged image a call may fail; that it fails (and how) is then the observation of this step
            try:
                return self._do(part, op)
            except Exception as e:   # noqa
                return b"<raised:" + type(e).__name__.encode() + b">"
        return self._do(part, op)

    def _do(self, part, op):
        if op[0] == "read":
            return self.stream(tuple(part["path"]), part.get("view", 0)).read(op[1])
        if op[0] == "seek":
            self.stream(tuple(part["path"]), part.get("view", 0)).seek(op[1], 0)
            return b""
        if op[0] == "ls":
            return tree.ls(self.img, op[1]).encode()
        if op[0] == "next":
            try:
                return next(self.transcoder(tuple(part["path"]), tuple(part["path2"])))
            except StopIteration:
                return b"<stop>"
        raise core.HarnessError(op)


def interleavings(counts):
    """all sequences of participant indices with participant i appearing counts[i] times"""
    total = sum(counts)

    def rec(rem, acc):
        if len(acc) == total:
            yield list(acc)
            return
        for i, r in enumerate(rem):
            if r:
                rem[i] -= 1
                acc.append(i)
                yield from rec(rem, acc)
                acc.pop()
                rem[i] += 1
    yield from rec(list(counts), [])


def bounded_interleavings(counts, max_switches):
    for seq in interleavings(counts):
        sw = sum(1 for a, b in zip(seq, seq[1:]) if a != b)
        if sw <= max_switches:
            yield seq


def run_schedule(kind, parts, seq):
    ctx = Ctx(kind)
    pos = [0] * len(parts)
    outs = [[] for _ in parts]
    try:
        for i in seq:
            op = parts[i]["ops"][pos[i]]
            pos[i] += 1
            outs[i].append(ctx.do(parts[i], op))
    finally:
        ctx.close()
    return [b"|".join(o) if parts[i].get("stepwise") else b"".join(o) for i, o in enumerate(outs)]


def isolated(kind, parts):
    res = []
    for i, p in enumerate(parts):
        seq = [i] * len(p["ops"])
        res.append(run_schedule(kind, parts, seq)[i])
    return res


# ----------------------------------------------------------------------------- configurations
def P(path, *ops, **kw):
    d = {"path": list(path), "ops": [list(o) for o in ops]}
    d.update(kw)
    return d


def configs(quick):
    out = []
    A1, A2, AB = ("A:", "VOL1", "FRAG"), ("A:", "VOL1", "NEXT"), ("B:", "VOLB", "BSMP")
    D = {"path": [], "ops": [["ls", "B:/VOLB"], ["ls", "A:/VOL2"]], "stepwise": True}
    D1 = {"path": [], "ops": [["ls", "A:/VOL2/OTHER"]], "stepwise": True}
    for kind in ("akai", "akai2352"):
        out.append({"name": kind + ":3x2+dir", "kind": kind, "parts": [
            P(A1, ("read", 4096), ("read", S - 1)), P(A2, ("read", 1), ("read", S + 1)),
            P(AB, ("seek", 100), ("read", 4096)), D]})
        out.append({"name": kind + ":2x4", "kind": kind, "parts": [
            P(A1, ("read", 2), ("read", 4096), ("read", 4096), ("read", 4096)),
            P(A2, ("read", S + 1), ("seek", 3), ("read", 1), ("read", 4096))]})
        out.append({"name": kind + ":stereo+stream+dir", "kind": kind, "parts": [
            {"path": ["A:", "VOL1", "PAD-L"], "path2": ["A:", "VOL1", "PAD-R"], "ops": [["next"], ["next"], ["next"]], "stepwise": True},
            P(A1, ("read", 4096), ("read", S + 1)), D1]})
        # reads that end exactly on a sector boundary and continue in the physically adjacent sector (contiguous file)
        AC = ("A:", "VOL1", "CONT")
        out.append({"name": kind + ":aligned", "kind": kind, "parts": [
            P(AC, ("seek", S - 140), ("read", S), ("read", S)), P(A2, ("read", 4096), ("read", 4096)),
            {"path": [], "ops": [["ls", "A:/VOL2/OTHER"]], "stepwise": True}]})
        out.append({"name": kind + ":aligned-blocks", "kind": kind, "parts": [
            P(AC, ("seek", S - 140 - 4096), ("read", 4096), ("read", 4096), ("read", 4096)),
            P(A1, ("seek", 2 * S - 140 - 2048), ("read", 2048), ("read", 2048))]})
        WL, WR = ("A:", "VOL1", "WIDE-L"), ("A:", "VOL1", "WIDE-R")
        out.append({"name": kind + ":contiguous+fragmented", "kind": kind, "parts": [
            P(WL, ("seek", S - 140 - 2048), ("read", 4096), ("seek", 2 * S - 140 - 100), ("read", 4096)),
            P(WR, ("seek", S - 140 - 2048), ("read", 4096), ("seek", 2 * S - 140 - 100), ("read", 4096))]})
        out.append({"name": kind + ":wide-stereo+stream", "kind": kind, "parts": [
            {"path": ["A:", "VOL1", "WIDE-L"], "path2": ["A:", "VOL1", "WIDE-R"], "ops": [["next"]] * 6, "stepwise": True},
            P(A1, ("read", 4096), ("read", S + 1))]})
        L5 = ("A:", "VOL1", "LONG5")
        out.append({"name": kind + ":big-blocks", "kind": kind, "parts": [
            P(L5, ("seek", 100), ("read", 30000), ("read", 10000)), P(A1, ("read", 4096), ("read", S + 1)),
            P(WR, ("read", 20000), ("read", 6146))]})
        if not quick:
            for sizes in itertools.product([1, 2, 4096, S - 1, S + 1], repeat=2):
                out.append({"name": f"{kind}:3x3:{sizes}", "kind": kind, "parts": [
                    P(A1, ("read", sizes[0]), ("read", sizes[1]), ("read", 4096)),
                    P(A2, ("read", sizes[1]), ("read", 4096), ("read", sizes[0])),
                    P(AB, ("read", 4096), ("seek", sizes[0]), ("read", sizes[1]))]})
    R0, R1, R2 = ("VOL", "PERF0", "FWD"), ("VOL", "PERF0", "REV"), ("VOL", "PERF1", "ELSE")
    CL = R.CLUSTER
    out.append({"name": "akai_cut:wide-stereo", "kind": "akai_cut", "parts": [
        {"path": ["A:", "VOL1", "WIDE-L"], "path2": ["A:", "VOL1", "WIDE-R"], "ops": [["next"]] * 7, "stepwise": True},
        P(A1, ("read", 4096), ("read", S + 1))]})
    for k in (2, 3, 4, 5):
        out.append({"name": f"roland_co{k}:stereo+stream", "kind": f"roland_co{k}", "parts": [
            {"path": ["VOL", "PERF0", "CO -L"], "path2": ["VOL", "PERF0", "CO -R"], "ops": [["next"]] * 4, "stepwise": True},
            P(("VOL", "PERF0", "FWD"), ("read", 4096), ("read", 4096))]})
    out.append({"name": "roland:big-blocks", "kind": "roland", "parts": [
        P(("VOL", "PERF0", "HALFA"), ("seek", 10), ("read", 30000), ("read", 8192)), P(("VOL", "PERF0", "CONT"), ("read", 20000), ("read", 4096)),
        P(("VOL", "PERF0", "REV"), ("read", 6000), ("read", 4096))]})
    out.append({"name": "roland:two-reversed", "kind": "roland", "parts": [
        P(("VOL", "PERF0", "REV"), ("read", 4096), ("read", 4096), ("read", 4096)), P(("VOL", "PERF0", "REV2"), ("read", 4096), ("read", 2), ("read", 4096)),
        P(("VOL", "PERF0", "FWD"), ("read", 4096))]})
    out.append({"name": "roland:reversed-stereo+stream", "kind": "roland", "parts": [
        {"path": ["VOL", "PERF0", "RV -L"], "path2": ["VOL", "PERF0", "RV -R"], "ops": [["next"]] * 5, "stepwise": True},
        P(("VOL", "PERF0", "REV"), ("read", 4096), ("read", 4096))]})
    out.append({"name": "roland:2x3+dir", "kind": "roland", "parts": [
        P(R0, ("read", 4096), ("read", CL - 1), ("read", 4096)), P(R1, ("read", 4096), ("read", 4096), ("read", CL + 1)),
        {"path": [], "ops": [["ls", "VOL/PERF1"]], "stepwise": True}]})
    out.append({"name": "roland:3x2", "kind": "roland", "parts": [
        P(R0, ("seek", 2), ("read", CL + 1)), P(R1, ("read", 2), ("read", 4096)), P(R2, ("read", 1), ("read", 4096))]})
    R3 = ("VOL", "PERF0", "CONT")
    out.append({"name": "roland:aligned", "kind": "roland", "parts": [
        P(R3, ("read", CL), ("read", CL), ("read", 4096)), P(R0, ("read", 4096), ("read", 4096)),
        {"path": [], "ops": [["ls", "VOL/PERF1"]], "stepwise": True}]})
    R4 = ("VOL", "PERF0", "TOP")
    out.append({"name": "roland:shared-sample-cluster-top", "kind": "roland", "parts": [
        P(R4, ("read", 4096), ("read", CL), ("read", 4096)),
        {"path": [], "ops": [["ls", "VOL/PERF1"], ["ls", "VOL/PERF1/TOP"]], "stepwise": True},
        P(("VOL", "PERF1", "TOP"), ("read", 2), ("read", 4096))]})
    # two streams of ONE sample (the element asked twice), read in turn -- each must see the whole sample. (Where the
    # element hands out the SAME object again -- AKAI samples and CDDA tracks do -- there is one stream, not two, and nothing
    # to compare: such schedules are counted as 'one-stream-object')
    for nm in ("WHOLE", "OVER", "FWD", "REV"):
        W = ("VOL", "PERF0", nm)
        out.append({"name": "roland:same-sample-twice:" + nm, "kind": "roland", "parts": [
            P(W, ("read", 4096), ("read", 4096), ("read", 4096)), P(W, ("read", 4096), ("seek", 2), ("read", 4096), view=1),
            P(R2 if nm != "FWD" else R1, ("read", 4096))]})
    HA, HB = ("VOL", "PERF0", "HALFA"), ("VOL", "PERF1", "HALFB")
    out.append({"name": "roland:two-samples-one-chain", "kind": "roland", "parts": [
        P(HA, ("read", 4096), ("read", CL), ("read", 4096)), P(HB, ("read", 2), ("read", CL + 1), ("read", 4096)),
        P(R0, ("read", 4096), ("read", 4096))]})
    # two directory entries naming one chain: two distinct streams over the same sectors, read in turn / through the transcoder
    DL, DR = ("A:", "VOL1", "DUAL-L"), ("A:", "VOL1", "DUAL-R")
    for kind in ("akai", "akai2352"):
        out.append({"name": kind + ":one-chain-two-entries", "kind": kind, "parts": [
            P(DL, ("read", 4096), ("read", 4096), ("read", S)), P(DR, ("read", 1000), ("seek", 3), ("read", 4096)),
            P(A1, ("read", 4096))]})
        out.append({"name": kind + ":one-chain-two-entries-stereo", "kind": kind, "parts": [
            {"path": list(DL), "path2": list(DR), "ops": [["next"]] * 4, "stepwise": True}, P(A2, ("read", 4096), ("read", 4096))]})
    # two VOLUME entries naming one directory: the streams of A:/VOL1/X and A:/VOL3/X are two streams over the same sectors
    for kind in ("akai", "akai2352"):
        out.append({"name": kind + ":one-directory-two-volumes", "kind": kind, "parts": [
            P(("A:", "VOL1", "FRAG"), ("read", 4096), ("read", 4096), ("read", S)), P(("A:", "VOL3", "FRAG"), ("read", 1000), ("seek", 3), ("read", 4096)),
            P(A2, ("read", 4096))]})
        out.append({"name": kind + ":one-directory-two-volumes-b", "kind": kind, "parts": [
            P(("A:", "VOL3", "CONT"), ("read", 4096), ("read", 4096), ("read", 4096)), P(("A:", "VOL1", "CONT"), ("read", 4096), ("read", 4096), ("read", 4096))]})
    # a raw-sector image with one scratched sync pattern inside FRAG: whatever a reader makes of that sector, what the
    # OTHER streams deliver must not depend on whether / when FRAG walked into it
    kind = "akai2352_scratched"
    out.append({"name": kind + ":3x2+dir", "kind": kind, "parts": [
        P(A1, ("read", 4096), ("read", -1)), P(A2, ("read", 1), ("read", S + 1)),
        P(AB, ("seek", 100), ("read", 4096)), D]})
    out.append({"name": kind + ":2x4", "kind": kind, "parts": [
        P(A1, ("read", 2), ("read", 4096), ("read", 4096), ("read", 4096)),
        P(A2, ("read", S + 1), ("seek", 3), ("read", 1), ("read", 4096))]})
    T1, T2, T3 = ("ONE",), ("TWO",), ("THREE",)
    # the same images as REAL files (buffered file objects with descriptors): reads of mixed sizes and seeks that stay within a
    # few KiB of one another on two / three streams
    out.append({"name": "cdda_file:3x2", "kind": "cdda_file", "parts": [
        P(T1, ("read", 4096), ("read", 2352 + 1)), P(T2, ("read", 1), ("read", 4096)), P(T3, ("seek", 2352), ("read", 4096))]})
    out.append({"name": "cdda_file:near-seeks", "kind": "cdda_file", "parts": [
        P(T1, ("read", 100), ("seek", 50), ("read", 3000), ("read", 100)), P(T2, ("read", 1), ("seek", 10), ("read", 500), ("read", 4096))]})
    out.append({"name": "cdda_file:near-seeks3", "kind": "cdda_file", "parts": [
        P(T1, ("read", 700), ("seek", 3), ("read", 700)), P(T2, ("seek", 4000), ("read", 1000), ("read", 1)), P(T3, ("read", 10), ("read", 3000))]})
    out.append({"name": "akai_file:2x4", "kind": "akai_file", "parts": [
        P(A1, ("read", 2), ("read", 4096), ("seek", 100), ("read", 700)),
        P(AB, ("read", 300), ("seek", 3), ("read", 1), ("read", 4096))]})
    out.append({"name": "roland_file:3x2", "kind": "roland_file", "parts": [
        P(R0, ("seek", 2), ("read", 700)), P(R1, ("read", 2), ("read", 4096)), P(R2, ("read", 1), ("read", 100))]})
    out.append({"name": "cdda:3x2", "kind": "cdda", "parts": [
        P(T1, ("read", 4096), ("read", 2352 + 1)), P(T2, ("read", 1), ("read", 4096)), P(T3, ("seek", 2352), ("read", 4096))]})
    # read-to-end requests (read(-1) / read(None)) issued after another stream has moved the shared handle
    out.append({"name": "cdda:read-to-end", "kind": "cdda", "parts": [
        P(T1, ("read", 4096), ("read", -1)), P(T2, ("read", 1), ("read", -1)), P(T3, ("seek", 2352), ("read", None))]})
    out.append({"name": "roland:read-to-end", "kind": "roland", "parts": [
        P(R0, ("read", 4096), ("read", -1)), P(R1, ("read", 2), ("read", -1)), P(R2, ("read", None))]})
    # an incomplete Roland image: two streams of the sample the file ends in, read with different block sizes (one of them
    # runs into the end of the file first), next to a stream of an intact sample
    OV = ("VOL", "PERF0", "OVER")
    out.append({"name": "roland_cut:same-sample-twice", "kind": "roland_cut", "parts": [
        P(OV, ("read", 4096), ("read", 4096), ("read", 4096)), P(OV, ("read", 1000), ("read", 3000), ("read", 700), view=1),
        P(("VOL", "PERF0", "WHOLE"), ("read", 4096))]})
    out.append({"name": "roland_cut:2x3", "kind": "roland_cut", "parts": [
        P(OV, ("read", 6000), ("seek", 0), ("read", 4096)), P(OV, ("read", 2048), ("read", 2048), ("read", 2048), view=1)]})
    for kind in ("akai", "akai2352"):
        out.append({"name": kind + ":read-to-end", "kind": kind, "parts": [
            P(A1, ("read", 4096), ("read", -1)), P(A2, ("seek", 3), ("read", None)), P(AB, ("read", 2), ("read", -1))]})
    out.append({"name": "cdda:2x4", "kind": "cdda", "parts": [
        P(T1, ("read", 2351), ("read", 2), ("read", 4096), ("read", 4096)), P(T2, ("read", 4096), ("seek", 0), ("read", 2353), ("read", 1))]})
    return out


def pristine_isolated(cfg_names, quick):
    """{config name: [sha1 of what each participant observes when its program runs ALONE in a NEW process]} -- state the
    code under test keeps at class or module level cannot leak from one participant (or schedule) into a baseline"""
    import hashlib
    import os
    import subprocess
    import sys
    from concurrent.futures import ThreadPoolExecutor
    by = {c["name"]: c for c in configs(quick)}
    jobs = [(n, i) for n in cfg_names for i in range(len(by[n]["parts"]))]

    def one(job):
        n, i = job
        r = subprocess.run([sys.executable, "-B", "-m", "mcv.checks.c11", "baseline", "1" if quick else "0", n, str(i)], cwd=core.VERIF,
                           capture_output=True, text=True, timeout=600, env=dict(os.environ, PYTHONHASHSEED="0"))
        if r.returncode != 0:
            return job, None
        return job, r.stdout.strip().splitlines()[-1]
    out = {n: [None] * len(by[n]["parts"]) for n in cfg_names}
    sims = {}
    with ThreadPoolExecutor(max_workers=min(16, os.cpu_count() or 4)) as ex:
        for (n, i), dig in ex.map(one, jobs):
            if dig is not None:
                alone, _, sim = dig.partition(" ")
                out[n][i] = alone
                if sim and sim != alone:
                    sims.setdefault(n, []).append(i)
    for n, idxs in sims.items():
        out[n] = {"block_size_dependent": idxs, "digests": out[n]}
    return out


def _baseline_main(quick, name, idx):
    import hashlib
    cfg = next(c for c in configs(quick) if c["name"] == name)
    parts = cfg["parts"]
    got = run_schedule(cfg["kind"], parts, [idx] * len(parts[idx]["ops"]))[idx]
    sim = ""
    if all(op[0] in ("read", "seek") for op in parts[idx]["ops"]):
        # "with any block sizes": what the program must see follows from the stream's content as read in plain 4096-byte
        # blocks from its start (the way the tool itself reads)
        st = Ctx(cfg["kind"]).stream(tuple(parts[idx]["path"]))
        st.seek(0, 0)
        content = b""
        try:
            while True:
                b = st.read(4096)
                if not b:
                    break
                content += b
        except Exception:   # noqa -- a stream that cannot be read to its end (damaged image) has no content to compare with:
            content = None  #         the interleavings alone decide
        if content is not None:
            pos, outs = 0, []
            for op in parts[idx]["ops"]:
                if op[0] == "seek":
                    pos = min(max(op[1], 0), len(content))
                else:
                    k = len(content) - pos if (op[1] is None or op[1] < 0) else min(op[1], len(content) - pos)
                    outs.append(content[pos:pos + k])
                    pos += k
            sim = hashlib.sha1(b"".join(outs)).hexdigest()
    if all(op[0] == "next" for op in parts[idx]["ops"]) and "path2" in parts[idx]:
        # the stereo steps must deliver, channel by channel, what isolated sequential reads of the two samples deliver
        # (a prefix of it: the export may stop early, e.g. at the end of an incomplete image)
        def alone(path):
            st = Ctx(cfg["kind"]).stream(tuple(path))
            st.seek(0, 0)
            out = b""
            while True:
                try:
                    b = st.read(4096)
                except Exception:   # noqa -- the image ends here
                    break
                if not b:
                    break
                out += b
            return out
        la, ra = alone(parts[idx]["path"]), alone(parts[idx]["path2"])
        ctx2 = Ctx(cfg["kind"])
        blocks = [ctx2.do(parts[idx], op) for op in parts[idx]["ops"]]      # (not from `got`: PCM may contain the joining byte)
        pcm = b"".join(b for b in blocks if b != b"<stop>")
        lch = b"".join(pcm[i:i + 2] for i in range(0, len(pcm) - 3, 4))
        rch = b"".join(pcm[i + 2:i + 4] for i in range(0, len(pcm) - 3, 4))
        sim = hashlib.sha1(got).hexdigest() if (la[:len(lch)] == lch and ra[:len(rch)] == rch) else "channel-not-a-prefix-of-the-sample-read-alone"
    print(hashlib.sha1(got).hexdigest() + " " + sim)


class Check(CheckBase):
    id = "C11"
    level = "model_checking"
    title = "Sample streams sharing one image file handle do not disturb one another"
    rule = ("per configuration (AKAI raw and inside MODE1/2352: two files of one partition, one fragmented, one file of a "
            "second partition, an L/R pair through the transcoder (also on an image file that ends inside the right half), the raw-sector image with one wiped sync pattern inside the first file, a three-sector pair with a contiguous left and a fragmented right half, a dual-mono pair whose two directory entries name ONE chain, lazy directory listings; Roland: forward + reverse-mode "
            "sample + listing of another performance, a shared sample with a leading-cluster offset, two samples living in one fragmented chain, two reverse-mode samples and a reverse-mode L/R pair, four pairs in which the left half's start point equals the address of the right half's first cluster; CDDA: three tracks; the CDDA, AKAI and Roland images again as REAL files (buffered file objects; reads and seeks that stay within a few KiB of one another); two streams of ONE sample obtained by asking the element twice -- Roland forward windows inside / equal to / one word longer than their file, a reverse-mode sample, the sample an incomplete Roland image ends in (an element that hands out the same object again has one stream: nothing to compare)): ALL interleavings of the participants' call programs "
            "(block reads of 1, 2, 4096, sector-1, sector+1 bytes and of 6146..30000 bytes over files of five sectors / four clusters, sector-aligned reads of a contiguous file that end "
            "exactly on a sector boundary, read-to-end requests, absolute seeks, ls of unrealised directories, transcoder "
            "steps) on one fresh image object per schedule; thorough adds 3x3-step programs over all 25 block-size pairs. "
            "Oracle: each participant's observations equal those of the same program run alone on a fresh image IN A NEW PROCESS "
            "(one pristine subprocess per participant, so that state kept at class / module level cannot leak into a baseline), and "
            "that alone-run itself equals what follows from the stream's content read in plain 4096-byte blocks (any block sizes). states = "
            "schedules, transitions = steps. non-trivial = schedule with >=2 context switches")
    assumptions = ["calls are atomic (the library has no threads): interleaving granularity is one stream/ls/transcoder call"]

    def shards(self):
        out = []
        cfgs = configs(self.quick)
        base = pristine_isolated([c["name"] for c in cfgs], self.quick)
        for ci, cfg in enumerate(cfgs):
            counts = [len(p["ops"]) for p in cfg["parts"]]
            depth = min(3, sum(counts))
            prefixes = sorted({tuple(seq[:depth]) for seq in interleavings(counts)})
            for pre in prefixes:
                out.append({"cfg": cfg, "prefix": list(pre), "iso": base[cfg["name"]]})
        return out

    def run_shard(self, shard, rep: Report):
        if "replay_case" in shard:
            c = shard["replay_case"]
            cfg = next((x for x in configs(False) if x["name"] == c["config"]), None) or \
                next((x for x in configs(True) if x["name"] == c["config"]), None)
            if cfg is None:
                raise core.HarnessError("unknown configuration in replay")
            quick = any(x["name"] == c["config"] for x in configs(True))
            iso = pristine_isolated([cfg["name"]], quick)[cfg["name"]]
            if isinstance(iso, dict):
                rep.case(c, ok=False, klass="block-size-dependent", sig=cfg["kind"] + ":block-size-dependent",
                         detail={"participants": iso["block_size_dependent"]})
                return
            return self._one(cfg, c["schedule"], rep, iso)
        cfg = shard["cfg"]
        iso = shard["iso"]
        if isinstance(iso, dict):
            for i in iso["block_size_dependent"]:
                rep.case({"config": cfg["name"], "schedule": [i] * len(cfg["parts"][i]["ops"])}, ok=False, klass="block-size-dependent",
                         nontrivial=True, sig=cfg["kind"] + ":block-size-dependent",
                         detail={"participant": i, "path": cfg["parts"][i]["path"], "ops": cfg["parts"][i]["ops"],
                                 "observed": "read alone, the program does not see the bytes that 4096-byte reads from the start deliver (stream programs) / "
                                             "a channel of the stereo steps is not a prefix of its sample read alone (transcoder programs)"})
            return
        if iso is None or any(d is None for d in iso):
            rep.case({"config": cfg["name"], "schedule": None}, ok=False, klass="isolated-run-failed", nontrivial=True,
                     sig=cfg["kind"] + ":isolated-run-failed")
            return
        counts = [len(p["ops"]) for p in cfg["parts"]]
        pre = shard["prefix"]
        counts2 = list(counts)
        for f in pre:
            counts2[f] -= 1
        for rest in interleavings(counts2):
            self._one(cfg, pre + rest, rep, iso)

    def _one(self, cfg, seq, rep, iso):
        if any(p.get("view") for p in cfg["parts"]):
            def same():
                c = Ctx(cfg["kind"])
                return any(c.stream(tuple(p["path"]), p["view"]) is c.stream(tuple(p["path"]), 0) for p in cfg["parts"] if p.get("view"))
            st0, one = guarded(same, 60.0)
            if st0 == "ok" and one:
                rep.case({"config": cfg["name"], "schedule": seq}, klass="one-stream-object", nontrivial=False)
                return
        st, got = guarded(lambda: run_schedule(cfg["kind"], cfg["parts"], seq), 60.0)
        sw = sum(1 for a, b in zip(seq, seq[1:]) if a != b)
        case = {"config": cfg["name"], "schedule": seq}
        rep.states += 1
        rep.transitions += len(seq)
        rep.traces += 1
        if st != "ok":
            rep.case(case, ok=False, klass="raised" if st == "exc" else "hang", nontrivial=sw >= 2,
                     sig=f"{cfg['kind']}:" + ("raised:" + exc_sig(got) if st == "exc" else "hang"), detail={"observed": repr(got)[:200]})
            return
        import hashlib
        for i, (g, e) in enumerate(zip(got, iso)):
            if hashlib.sha1(g).hexdigest() != e:
                # where it differs: against the same program run alone in THIS process (may itself be affected; informative only)
                st2, alone = guarded(lambda: run_schedule(cfg["kind"], cfg["parts"], [i] * len(cfg["parts"][i]["ops"]))[i], 60.0)
                k = None
                if st2 == "ok":
                    k = next((j for j in range(min(len(g), len(alone))) if g[j] != alone[j]), min(len(g), len(alone)))
                rep.case(case, ok=False, klass="disturbed", nontrivial=sw >= 2, sig=f"{cfg['kind']}:disturbed:participant{i}",
                         detail={"participant": i, "path": cfg["parts"][i]["path"], "observed_len": len(g),
                                 "first_difference_vs_alone_in_this_process": k,
                                 "alone_in_this_process_equals_alone_in_new_process": (st2 == "ok" and hashlib.sha1(alone).hexdigest() == e)})
                return
        rep.case(case, klass=f"undisturbed:{min(sw, 6)}switches", nontrivial=sw >= 2)


if __name__ == "__main__":
    import sys
    if len(sys.argv) == 5 and sys.argv[1] == "baseline":
        _baseline_main(sys.argv[2] == "1", sys.argv[3], int(sys.argv[4]))
