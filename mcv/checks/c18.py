"""C18 -- name, note and tuning codecs round-trip over their whole domains (complete enumeration)."""
import itertools

from mcv.engine.core import CheckBase, Report, guarded, exc_sig

# independent table of the 41 valid characters (AKAI byte -> ASCII)
VALID = {}
for _i in range(10):
    VALID[_i] = chr(ord("0") + _i)
VALID[0x0A] = " "
for _i in range(26):
    VALID[0x0B + _i] = chr(ord("A") + _i)
VALID[0x25], VALID[0x26], VALID[0x27], VALID[0x28] = "#", "+", "-", "."
ASCII_VALID = {ord(c): b for b, c in VALID.items()}
assert len(VALID) == 41 and len(ASCII_VALID) == 41


def call(fn):
    st, val = guarded(fn, 5.0)
    return st, val


class Check(CheckBase):
    id = "C18"
    level = "exploration"
    title = "Name, note and tuning codecs round-trip over their whole domains"
    rule = ("complete domains: all 256 bytes through AKAI->ASCII and ASCII->AKAI (bytes and 1-char strings incl. lower "
            "case), bijection on the 41 valid characters against an independent table; AkaiPaddedString(12) "
            "parse(build(s)) for all strings of length <=2 over the 41 characters (and length 12 paddings); all 256 bytes "
            "through note<->AKAI byte and note<->MIDI byte; all 7x2x10 note spellings through text; all 256 tuning bytes; a 7-character name decoded / encoded right after a call "
            "that ended with each of the 256 bytes (accepted or rejected): the codecs keep nothing between calls; the construct adapters the parsers use (note byte, tuning byte) over all 256 bytes. "
            "non-trivial = every case other than the identity on a single digit")
    assumptions = ["trailing blanks of a padded name are padding and excluded from the identity"]

    def shards(self):
        return [{"part": p} for p in ("akai2ascii", "ascii2akai", "strings", "notes", "text", "tune", "sequences", "constructs")]

    def run_shard(self, shard, rep: Report):
        part = shard["replay_case"]["part"] if "replay_case" in shard else shard["part"]
        only = shard.get("replay_case")
        getattr(self, "_" + part)(rep, only)

    def _akai2ascii(self, rep, only=None):
        from smpl_extract.akai.akai_string import char_akai_to_ascii
        for b in range(256):
            case = {"part": "akai2ascii", "byte": b}
            if only and only != case:
                continue
            st, val = call(lambda: char_akai_to_ascii(bytes([b])))
            if b in VALID:
                ok = st == "ok" and val == VALID[b]
                rep.case(case, ok=ok, klass="accepted", nontrivial=True, sig="akai2ascii:valid",
                         detail=None if ok else {"expected": VALID[b], "observed": repr(val)})
            else:
                ok = st == "exc"
                rep.case(case, ok=ok, klass="rejected:" + (type(val).__name__ if st == "exc" else "NOT"), nontrivial=True,
                         sig="akai2ascii:invalid-accepted", detail=None if ok else {"expected": "rejection", "observed": repr(val)})

    def _sequences(self, rep, only=None):
        """the codecs keep nothing between calls: a multi-character name decodes / encodes the same after ANY rejected input
        (valid characters followed by each invalid byte) and after any other accepted name"""
        from smpl_extract.akai.akai_string import char_akai_to_ascii, char_ascii_to_akai
        probe_a = bytes([0x15, 0x13, 0x0D, 0x15, 0x0A, 0x00, 0x01])          # "KICK 01"
        probe_s = "KICK 01"
        for b in range(256):
            case = {"part": "sequences", "after": b}
            if only and only != case:
                continue
            call(lambda: char_akai_to_ascii(bytes([0x1D, 0x18, 0x0B, 0x1C, 0x0F, b])))      # "SNARE" + byte b: rejected when b is invalid
            st, val = call(lambda: char_akai_to_ascii(probe_a))
            ok = st == "ok" and val == probe_s
            if ok:
                call(lambda: char_ascii_to_akai(b"TOM" + bytes([b])))
                st, val = call(lambda: char_ascii_to_akai(probe_s))
                ok = st == "ok" and bytes(val) == probe_a
            rep.case(case, ok=ok, klass="sequence-ok" if ok else "sequence-differs", nontrivial=True, sig="sequences:name-after-another-call",
                     detail=None if ok else {"after_byte": b, "expected": probe_s, "observed": repr(val)[:80]})

    def _constructs(self, rep, only=None):
        """the same codecs as the PARSERS use them (construct adapters over one byte): parse(byte) equals the bare method,
        build(parse(byte)) gives the byte back -- for all 256 bytes"""
        from construct.core import Int8ul, Int8sl
        from smpl_extract.akai import data_types as DT
        from smpl_extract.midi import MidiNote
        note = DT.AkaiMidiNote(Int8ul)
        for b in range(256):
            case = {"part": "constructs", "codec": "AkaiMidiNote", "byte": b}
            if only and only != case:
                continue
            st, val = call(lambda: (note.parse(bytes([b])), MidiNote.from_akai_byte(b)))
            ok = st == "ok" and val[0] == val[1]
            if ok:
                st, back = call(lambda: note.build(val[0]))
                ok = st == "ok" and bytes(back) == bytes([b])
            rep.case(case, ok=ok, klass="construct-note", nontrivial=True, sig="constructs:AkaiMidiNote",
                     detail=None if ok else {"byte": b, "observed": repr(val)[:120]})
        for sub, nm in ((Int8sl, "s8"), (Int8ul, "u8")):
            tune = DT.AkaiTuneCents(sub)
            for b in range(256):
                case = {"part": "constructs", "codec": "AkaiTuneCents:" + nm, "byte": b}
                if only and only != case:
                    continue
                st, val = call(lambda: tune.build(tune.parse(bytes([b]))))
                ok = st == "ok" and bytes(val) == bytes([b])
                rep.case(case, ok=ok, klass="construct-tune", nontrivial=True, sig="constructs:AkaiTuneCents",
                         detail=None if ok else {"byte": b, "observed": repr(val)[:120]})

    def _ascii2akai(self, rep, only=None):
        from smpl_extract.akai.akai_string import char_ascii_to_akai, char_akai_to_ascii
        for a in range(256):
            case = {"part": "ascii2akai", "byte": a, "form": "bytes"}
            if not only or only == case:
                st, val = call(lambda: char_ascii_to_akai(bytes([a])))
                if a in ASCII_VALID:
                    ok = st == "ok" and bytes(val) == bytes([ASCII_VALID[a]])
                    if ok:
                        st2, back = call(lambda: char_akai_to_ascii(val))
                        ok = st2 == "ok" and back == chr(a)
                    rep.case(case, ok=ok, klass="accepted", nontrivial=True, sig="ascii2akai:valid",
                             detail=None if ok else {"expected": ASCII_VALID[a], "observed": repr(val)})
                else:
                    ok = st == "exc"
                    rep.case(case, ok=ok, klass="rejected", nontrivial=True, sig="ascii2akai:invalid-accepted",
                             detail=None if ok else {"expected": "rejection", "observed": repr(val)})
            if a < 128:
                case = {"part": "ascii2akai", "byte": a, "form": "str"}
                if only and only != case:
                    continue
                up = ord(chr(a).upper()) if len(chr(a).upper()) == 1 else a
                st, val = call(lambda: char_ascii_to_akai(chr(a)))
                if up in ASCII_VALID:
                    ok = st == "ok" and bytes(val) == bytes([ASCII_VALID[up]])
                    rep.case(case, ok=ok, klass="accepted-str", nontrivial=True, sig="ascii2akai:str",
                             detail=None if ok else {"expected": ASCII_VALID[up], "observed": repr(val)})
                else:
                    ok = st == "exc"
                    rep.case(case, ok=ok, klass="rejected-str", nontrivial=True, sig="ascii2akai:str-invalid-accepted",
                             detail=None if ok else {"expected": "rejection", "observed": repr(val)})

    def _strings(self, rep, only=None):
        from smpl_extract.akai.akai_string import AkaiPaddedString
        con = AkaiPaddedString(12)
        chars = [VALID[b] for b in sorted(VALID)]
        strings = [""] + chars + ["".join(p) for p in itertools.product(chars, repeat=2)]
        strings += [c * 12 for c in chars] + [c + "A" * 10 + c for c in chars]
        for s in strings:
            case = {"part": "strings", "s": s}
            if only and only != case:
                continue
            st, built = call(lambda: con.build(s))
            if st != "ok":
                rep.case(case, ok=False, klass="build-raised", nontrivial=True, sig="strings:build", detail={"observed": repr(built)[:200]})
                continue
            st, parsed = call(lambda: con.parse(built))
            want = s.rstrip(" ")
            exp_bytes = bytes(ASCII_VALID[ord(c)] for c in s) + bytes([0x0A]) * (12 - len(s))
            ok = st == "ok" and parsed == want and len(built) == 12 and bytes(built) == exp_bytes
            rep.case(case, ok=ok, klass="string", nontrivial=len(s) > 0, sig="strings:roundtrip",
                     detail=None if ok else {"expected": want, "observed": repr(parsed)[:100], "built": bytes(built).hex() if st == "ok" else None})

    def _notes(self, rep, only=None):
        from smpl_extract.midi import MidiNote
        for b in range(256):
            for kind, frm, to in (("akai", MidiNote.from_akai_byte, "to_akai_byte"), ("midi", MidiNote.from_midi_byte, "to_midi_byte")):
                case = {"part": "notes", "byte": b, "kind": kind}
                if only and only != case:
                    continue
                st, val = call(lambda: getattr(frm(b), to)())
                ok = st == "ok" and val == b
                rep.case(case, ok=ok, klass="note-byte", nontrivial=True, sig="notes:" + kind,
                         detail=None if ok else {"expected": b, "observed": repr(val)[:100]})

    def _text(self, rep, only=None):
        from smpl_extract.midi import MidiNote, ScaleDegree
        for deg in range(7):
            for sharp in (False, True):
                for octv in range(10):
                    case = {"part": "text", "degree": deg, "sharp": sharp, "octave": octv}
                    if only and only != case:
                        continue
                    n = MidiNote(ScaleDegree(deg), sharp, octv)
                    st, val = call(lambda: MidiNote.from_string(n.to_string()))
                    ok = st == "ok" and val == n and val.to_int_a0() == n.to_int_a0()
                    # independent value of the spelling: semitone above A of the octave
                    semis = [0, 2, 3, 5, 7, 8, 10][deg] + (1 if sharp else 0) + 12 * octv
                    ok = ok and n.to_int_a0() == semis
                    rep.case(case, ok=ok, klass="note-text", nontrivial=True, sig="text",
                             detail=None if ok else {"note": n.to_string() if st != "hang" else None, "observed": repr(val)[:100], "semitones": semis})

    def _tune(self, rep, only=None):
        from smpl_extract.akai.data_types import parse_akai_tune_cents, build_akai_tune_cents
        for x in range(-128, 128):
            case = {"part": "tune", "byte": x}
            if only and only != case:
                continue
            st, val = call(lambda: build_akai_tune_cents(parse_akai_tune_cents(x)))
            ok = st == "ok" and val == x
            rep.case(case, ok=ok, klass="tune", nontrivial=x != 0, sig="tune",
                     detail=None if ok else {"expected": x, "observed": repr(val)[:100]})
