"""C17 -- cue sheets are read the same regardless of case, spacing and unknown lines."""
import itertools
import os

from mcv.engine import core, tree
from mcv.engine.core import CheckBase, Report, exc_sig, guarded, scratch_dir
from mcv.gen import cue as Q
from mcv.gen import akai as A

UNKNOWN = ["REM x", 'PERFORMER "p"', "FLAGS DCP", "PREGAP 00:02:00", "ISRC X", "CATALOG 1",
           "REM TRACK 09 AUDIO", 'REM FILE "z" BINARY', "", "   ", "\t",
           "rem x", 'Performer "p"', "flags dcp", 'Rem file "z" binary', "catalog 1", 'songwriter "s"', "Xyzzy 1 2 3",
           # one-word lines (a keyword without arguments) and punctuation only
           "REM", "rem", "FLAGS", "X", ";", '"']
PADS = ["lead", "trail", "tab", "cr", "lead1k", "trail5k", "tab2k"]      # (the last three: 1100 / 5000 blanks, 2000 tabs)


def mix(word, how):
    if how == 0:
        return word.upper()
    if how == 1:
        return word.lower()
    return "".join(c.upper() if i % 2 == 0 else c.lower() for i, c in enumerate(word))


def canonical(ntracks, nidx, title, data):
    """-> (model, records).  records: list of (kind, parts) where parts are tokens to be cased."""
    model = {"bin": "disc.bin", "tracks": []}
    recs = [("FILE", None)]
    pos = 0
    for t in range(ntracks):
        mode = "MODE1/2352" if (data and t == 0) else "AUDIO"
        tr = {"number": t + 1, "mode": mode, "title": (f"Song {t + 1} x" if title else None), "indices": []}
        recs.append(("TRACK", t))
        if title:
            recs.append(("TITLE", t))
        for k in range(nidx):
            num = k if nidx == 2 else 1
            p = pos + k * 2
            tr["indices"].append((num, p))
            recs.append(("INDEX", (t, len(tr["indices"]) - 1)))
        pos += 77
        model["tracks"].append(tr)
    return model, recs


def render(model, recs, case=(0, 0, 0, 0)):
    lines = []
    for kind, ref in recs:
        if kind == "FILE":
            lines.append('%s "%s" %s' % (mix("FILE", case[0]), model["bin"], mix("BINARY", case[0])))
        elif kind == "TRACK":
            tr = model["tracks"][ref]
            lines.append("  %s %02d %s" % (mix("TRACK", case[1]), tr["number"], mix(tr["mode"], case[1])))
        elif kind == "TITLE":
            lines.append('    %s "%s"' % (mix("TITLE", case[3]), model["tracks"][ref]["title"]))
        else:
            t, k = ref
            num, p = model["tracks"][t]["indices"][k]
            lines.append("    %s %02d %s" % (mix("INDEX", case[2]), num, Q.msf(p)))
    return lines


def pad_line(s, how):
    return {"lead": "      " + s, "trail": s + "    ", "tab": "\t\t" + s.strip() + "\t", "cr": s + "\r",
            "lead1k": " " * 1100 + s, "trail5k": s + " " * 5000, "tab2k": "\t" * 2000 + s.strip() + "\t" * 2000}[how]


def apply(model, recs, tf):
    """tf: list of transformations -> list of text lines (no newline)"""
    case = (0, 0, 0, 0)
    for t in tf:
        if t[0] == "case":
            case = tuple(t[1])
    lines = render(model, recs, case)
    for t in tf:
        if t[0] == "pad":
            how, which = t[1], t[2]
            if which < 0:
                lines = [pad_line(l, how) for l in lines]
            elif which < len(lines):
                lines[which] = pad_line(lines[which], how)
    ins = sorted([t for t in tf if t[0] in ("ins", "bulk")], key=lambda t: -t[1])
    for t in ins:
        if t[0] == "bulk":
            # many ignorable lines at one place: the sheet grows to several / many KB
            lines[t[1]:t[1]] = [(UNKNOWN[t[2]] + (" %05d" % k if UNKNOWN[t[2]].strip() else "")) for k in range(t[3])]
        else:
            lines.insert(t[1], UNKNOWN[t[2]])
    return lines


def insert_positions(recs):
    first_track = next(i for i, r in enumerate(recs) if r[0] == "TRACK")
    return [0] + list(range(first_track + 1, len(recs) + 1))


def single_transformations(recs):
    out = []
    for c in itertools.product((0, 1, 2), repeat=4):
        if c != (0, 0, 0, 0):
            out.append(["case", list(c)])
    for how in PADS:
        out.append(["pad", how, -1])
        for i in range(len(recs)):
            out.append(["pad", how, i])
    for pos in insert_positions(recs):
        for k in range(len(UNKNOWN)):
            out.append(["ins", pos, k])
    # blank lines are admissible everywhere, also between the FILE line and the first TRACK (unknown lines are not)
    first_track = next(i for i, r in enumerate(recs) if r[0] == "TRACK")
    for pos in range(1, first_track + 1):
        for k, u in enumerate(UNKNOWN):
            if u.strip() == "":
                out.append(["ins", pos, k])
    return out


def expected_struct(model):
    return (model["bin"], [(t["number"], t["mode"].lower(), t["title"],
                            [(n,) + tuple(int(x) for x in Q.msf(p).split(":")) for n, p in t["indices"]])
                           for t in model["tracks"]])


def parsed_struct(sheet):
    return (sheet.bin_file_name, [(t.number, t.mode.lower(), t.title,
                                   [(i.number, i.n_minutes, i.n_seconds, i.n_frames) for i in t.indices])
                                  for t in sheet.tracks])


def run_parse(model, recs, tf, eol="\n"):
    from smpl_extract.cuesheet import parse_cue_sheet
    lines = [l + eol for l in apply(model, recs, tf)]
    st, val = guarded(lambda: parsed_struct(parse_cue_sheet(list(lines))), 10.0)
    if st == "hang":
        return False, "hang", {"observed": "non-termination"}
    if st == "exc":
        return False, "raised:" + exc_sig(val), {"observed": repr(val)[:200], "lines": lines[:12]}
    exp = expected_struct(model)
    if val != exp:
        return False, "structure-differs", {"expected": repr(exp)[:400], "observed": repr(val)[:400]}
    return True, "same", None


_AKAI_BIN = None


def akai_bin():
    global _AKAI_BIN
    if _AKAI_BIN is None:
        spec = {"parts": [{"vols": [{"name": "VOL", "dir": [3], "files": [{"name": "SMP", "n": 40, "chain": [4], "seq": 1}]}]}]}
        _AKAI_BIN = A.build_akai(A.model_from_spec(spec))[0]
    return _AKAI_BIN


def image_obs(d, name, lines, data, eol="\n", raw=None):
    path = os.path.join(d, name)
    with open(path, "wb") as f:
        f.write(raw if raw is not None else (eol.join(lines) + eol).encode("ascii"))

    def go():
        img = tree.open_image(path)
        cls = type(img).__name__
        return cls, tree.ls(img, "")
    return guarded(go, 20.0)


def run_image(model, recs, tf, data):
    with scratch_dir("c17") as d:
        with open(os.path.join(d, "disc.bin"), "wb") as f:
            f.write(akai_bin() if data else Q.bin_bytes(Q.SECTOR * 240 + 10))
        st0, base = image_obs(d, "canon.cue", apply(model, recs, []), data)
        if tf and tf[0][0] == "eof":
            # how the FILE ends: without a final line end, with blanks / a tab behind an unterminated last line, with extra
            # blank lines, under LF and CRLF
            lines = apply(model, recs, [])
            eol = "\r\n" if tf[0][2] else "\n"
            raw = (eol.join(lines) + {"none": "", "blanks": "   ", "tab": "\t", "extra": eol + eol + eol, "cr": "\r"}[tf[0][1]]).encode("ascii")
            st1, got = image_obs(d, "trans.cue", None, data, raw=raw)
        else:
            st1, got = image_obs(d, "trans.cue", apply(model, recs, tf), data)
    if st0 != "ok":
        return False, "canonical-sheet-failed", {"observed": repr(base)[:200]}
    want_cls = "CompactDiskAudioImage" if not data else "AkaiImageParser"
    if base[0] != want_cls:
        return False, "canonical-class", {"expected": want_cls, "observed": base[0]}
    if st1 != "ok":
        return False, "raised:" + (exc_sig(got) if st1 == "exc" else "hang"), {"observed": repr(got)[:200]}
    if got != base:
        return False, "image-differs", {"expected": base[0] + "\n" + base[1][:300], "observed": got[0] + "\n" + got[1][:300]}
    return True, "same-image", None


def run_negative(model, recs, neg):
    """neg = ['nofile'] | ['nonascii', line, bytes-hex]: must not be treated as a cue sheet, must not raise."""
    lines = apply(model, recs, [])
    if neg[0] == "nofile":
        lines = lines[1:]
        raw = ("\n".join(lines) + "\n").encode("ascii")
    elif neg[0] == "nofile-long":
        # no FILE line, and 20 KB of harmless text before the rest
        lines = ["REM filler line %05d" % k for k in range(900)] + lines[1:]
        raw = ("\n".join(lines) + "\n").encode("ascii")
    elif neg[0] == "nonascii-late":
        # the non-ASCII byte comes after 20 KB of harmless text (before FILE / at the very end)
        fill = [b"REM filler line %05d" % k for k in range(900)]
        enc = [l.encode("ascii") for l in lines]
        raw = b"\n".join((fill + enc + [b"REM caf" + bytes.fromhex(neg[1])]) if neg[2] == "end" else
                         ([enc[0]] + fill + [b"REM caf" + bytes.fromhex(neg[1])] + enc[1:])) + b"\n"
    else:
        i = neg[1]
        enc = [l.encode("ascii") for l in lines]
        enc[i] = enc[i] + b" " + bytes.fromhex(neg[2])
        raw = b"\n".join(enc) + b"\n"
    with scratch_dir("c17n") as d:
        with open(os.path.join(d, "disc.bin"), "wb") as f:
            f.write(Q.bin_bytes(Q.SECTOR * 240))
        st, got = image_obs(d, "neg.cue", None, False, raw=raw)
    if st != "ok":
        return False, "negative-raised:" + (exc_sig(got) if st == "exc" else "hang"), {"observed": repr(got)[:200]}
    if got[0] == "CompactDiskAudioImage":
        return False, "negative-treated-as-cue", {"observed": got[1][:200]}
    return True, "not-a-cue:" + got[0], None


SHEETS = [(n, i, t, d) for n in (1, 2, 3) for i in (1, 2) for t in (False, True) for d in (False, True)]


class Check(CheckBase):
    id = "C17"
    level = "exploration"
    title = "Cue sheets are read the same regardless of case, spacing and unknown lines"
    rule = ("24 canonical sheets (tracks 1..3 x INDEX lines {1,2} x TITLE {y,n} x {all AUDIO, first track data}) x all "
            "single transformations: 80 keyword-case combinations (3^4-1), padding {leading, trailing, tabs, CR, 1100 leading blanks, 5000 trailing blanks, 2000 tabs on both sides} uniform "
            "and on each single line, each of 24 blank/unknown lines (upper, lower and mixed case, one with an unheard-of keyword, six of ONE word or punctuation only) at every admissible position (before FILE, anywhere "
            "after the first TRACK line; blank lines also between FILE and the first TRACK); x line ending {LF, CRLF}; all PAIRS of single transformations (quick: sheets "
            "with <=2 tracks and every 5th pair; thorough: all); structure compared with the model; image-level (real files; also five ways a file can END: no final line end, blanks / a tab / a CR behind an unterminated last line, extra blank lines, under LF and CRLF) (real "
            "files, class + ls text) for all single transformations; 150 / 1500 (thorough also 700 / 6000) copies of an ignorable "
            "line at every admissible position (sheets of 2 KB .. 90 KB; 7000 comment lines / 300 000 blank lines at the first and last position: 84 KB, 300 KB); negative: FILE line removed, non-ASCII byte on each "
            "line, FILE line missing / non-ASCII byte after 20 KB of harmless text -> not a cue sheet and no exception. non-trivial = transformed text differs from canonical")
    assumptions = ["unknown lines between FILE and the first TRACK are outside the statement and not generated"]

    def shards(self):
        out = []
        for sh in SHEETS:
            out.append({"mode": "single", "sheet": list(sh)})
            out.append({"mode": "image", "sheet": list(sh)})
            out.append({"mode": "negative", "sheet": list(sh)})
            out.append({"mode": "bulk", "sheet": list(sh)})
            if self.quick and sh[0] > 2:
                continue
            for part in range(4):
                out.append({"mode": "pairs", "sheet": list(sh), "part": part, "stride": 5 if self.quick else 1})
        return out

    def run_shard(self, shard, rep: Report):
        if "replay_case" in shard:
            c = shard["replay_case"]
            model, recs = canonical(*c["sheet"])
            if c["mode"] == "parse":
                ok, klass, detail = run_parse(model, recs, c["tf"], c.get("eol", "\n"))
            elif c["mode"] == "image":
                ok, klass, detail = run_image(model, recs, c["tf"], c["sheet"][3])
            else:
                ok, klass, detail = run_negative(model, recs, c["neg"])
            rep.case(c, ok=ok, klass=klass, detail=detail, sig=f"{c['mode']}:{klass}")
            return
        sh = shard["sheet"]
        model, recs = canonical(*sh)
        singles = single_transformations(recs)
        if shard["mode"] == "single":
            for eol in ("\n", "\r\n"):
                for tf in [[]] + [[t] for t in singles]:
                    ok, klass, detail = run_parse(model, recs, tf, eol)
                    rep.case({"mode": "parse", "sheet": sh, "tf": tf, "eol": eol}, ok=ok, klass=klass,
                             nontrivial=bool(tf), detail=detail, sig=f"parse:{klass}:{tf[0][0] if tf else 'none'}")
        elif shard["mode"] == "pairs":
            n = 0
            for a, b in itertools.combinations(singles, 2):
                n += 1
                if n % 4 != shard["part"] or (n // 4) % shard["stride"]:
                    continue
                if a[0] == "case" and b[0] == "case":
                    continue
                tf = [a, b]
                ok, klass, detail = run_parse(model, recs, tf)
                rep.case({"mode": "parse", "sheet": sh, "tf": tf}, ok=ok, klass=klass, nontrivial=True, detail=detail,
                         sig=f"parse:{klass}:{a[0]}+{b[0]}")
        elif shard["mode"] == "bulk":
            # long sheets: 150 / 1500 (thorough also 700 / 6000) copies of an ignorable line at every admissible position
            first_track = next(i for i, r in enumerate(recs) if r[0] == "TRACK")
            bulk = []
            for pos in insert_positions(recs):
                for uk in (0, 8, 11):
                    for count in ((150, 1500) if self.quick else (150, 700, 1500, 6000)):
                        bulk.append(["bulk", pos, uk, count])
            for pos in range(1, first_track + 1):
                bulk.append(["bulk", pos, 8, 1500])
            # sheets beyond 64 KiB and beyond 256 KiB (first and last admissible position)
            ips = insert_positions(recs)
            for pos in (ips[0], ips[-1]):
                bulk.append(["bulk", pos, 0, 7000])
                bulk.append(["bulk", pos, 8, 300000])
            for k, t in enumerate(bulk):
                ok, klass, detail = run_parse(model, recs, [t])
                if detail and "lines" in detail:
                    detail["lines"] = detail["lines"][:3]
                rep.case({"mode": "parse", "sheet": sh, "tf": [t]}, ok=ok, klass=klass, nontrivial=True, detail=detail,
                         sig=f"parse:{klass}:bulk")
                if t[3] >= 1500 and (t[2] == 0 or k % 5 == 0):     # image level (real files): the long ones
                    ok, klass, detail = run_image(model, recs, [t], sh[3])
                    rep.case({"mode": "image", "sheet": sh, "tf": [t]}, ok=ok, klass=klass, nontrivial=True, detail=detail,
                             sig=f"image:{klass}:bulk")
        elif shard["mode"] == "image":
            for how in ("none", "blanks", "tab", "extra", "cr"):
                for crlf in (0, 1):
                    t = ["eof", how, crlf]
                    ok, klass, detail = run_image(model, recs, [t], sh[3])
                    rep.case({"mode": "image", "sheet": sh, "tf": [t]}, ok=ok, klass=klass, nontrivial=True, detail=detail,
                             sig=f"image:{klass}:eof")
            sel = singles if not self.quick else singles[::4]
            for t in sel:
                ok, klass, detail = run_image(model, recs, [t], sh[3])
                rep.case({"mode": "image", "sheet": sh, "tf": [t]}, ok=ok, klass=klass, nontrivial=True, detail=detail,
                         sig=f"image:{klass}:{t[0]}")
        else:
            negs = [["nofile"], ["nofile-long"], ["nonascii-late", "e9", "end"], ["nonascii-late", "c3a9", "end"],
                    ["nonascii-late", "e9", "mid"]]
            for i in range(len(recs)):
                for hx in ("80", "ff", "c3a9"):
                    negs.append(["nonascii", i, hx])
            for neg in negs:
                ok, klass, detail = run_negative(model, recs, neg)
                rep.case({"mode": "negative", "sheet": sh, "neg": neg}, ok=ok, klass=klass, nontrivial=True, detail=detail,
                         sig=f"negative:{klass}")
