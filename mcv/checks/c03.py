"""C03 -- CDDA tracks tile the bin file exactly at the cue sheet's index positions."""
import itertools
import os

from mcv.engine import core, tree
from mcv.engine.core import CheckBase, Report, exc_sig, guarded, scratch_dir
from mcv.gen import cue as Q
from mcv.ref import riff

P_QUICK = [0, 1, 2, 75, 76, 150]
P_FULL = [0, 1, 2, 3, 74, 75, 76, 149, 150]
RESIDUES = [0, 1, 2, 3, 4, 5, 2351, 2352, 2353, 4095, 4096, 4097, 4098, 4704]


def track_variants(k):
    """per-track options under deviation bound 1: base = one INDEX, no TITLE"""
    base = [("one", False)] * k
    yield base
    for i in range(k):
        for opt in (("one", True), ("two", False), ("two", True)):
            v = list(base)
            v[i] = opt
            yield v
    yield [("two", True)] * k


# TRACK numbers are labels: the order of the sheet and the index times decide where a track starts and ends
TRACK_NUMBERS = {"odd": [3, 9, 10, 42], "desc": [42, 10, 9, 3], "restart": [1, 2, 1, 2], "firsthigh": [9, 1, 2, 3], "equal": [1, 1, 1, 1],
                 "zero": [0, 0, 1, 99], "wide": [99, 100, 101, 1000], "widefirst": [100, 7, 255, 8]}


def make_tracks(positions, opts, first_number=1, numbering="std", modes=None):
    tracks = []
    for i, (p, (idx, title)) in enumerate(zip(positions, opts)):
        nxt = positions[i + 1] if i + 1 < len(positions) else p + 3
        second = min(p + 1, max(p, nxt - 1)) if nxt > p + 1 else p
        if idx == "one":
            indices = [(1, p)] if numbering != "odd" else [(5 + i, p)]
        elif numbering != "odd":
            indices = [(0, p), (1, second)]
        else:
            indices = [(2, p), (1, second), (7, second)]      # first INDEX line is neither 00 nor 01
        num = first_number + i if numbering == "std" else TRACK_NUMBERS[numbering][i]
        tracks.append({"number": num, "title": (f"TRK {i + 1}" if title else None), "indices": indices})
        if modes:
            tracks[-1]["mode"] = modes[i % len(modes)]
    return tracks


def expected_tracks(positions, binlen):
    out = []
    for i, p in enumerate(positions):
        if i + 1 < len(positions):
            out.append((Q.SECTOR * p, Q.SECTOR * positions[i + 1]))
        else:
            end = binlen - ((binlen - Q.SECTOR * p) % 4)
            out.append((Q.SECTOR * p, end))
    return out


def titles_of(tracks):
    return [t["title"] if t["title"] else f"Untitled Track {i + 1}" for i, t in enumerate(tracks)]


def run_virtual(case):
    from smpl_extract.cuesheet import parse_cue_sheet
    from smpl_extract.cdda.image import CompactDiskAudioImageAdapter
    from smpl_extract.generalized.wav import WavSampleBuilder
    positions, binlen = case["positions"], case["binlen"]
    tracks = make_tracks(positions, [tuple(o) for o in case["opts"]], numbering=case.get("numbering", "std"), modes=case.get("modes"))
    lines = [l + "\n" for l in Q.cue_lines("x.bin", tracks)]

    def go():
        sheet = parse_cue_sheet(list(lines))
        image = CompactDiskAudioImageAdapter.from_bin_cue(Q.VirtualBin(binlen), sheet)
        image.set_routines({"make_safe_names": image.make_safe_names_routine,
                            "make_export_names": image.make_export_names_routine})
        outs = []
        for child in image.children:
            sample = child.to_generalized()
            outs.append((child.name, WavSampleBuilder.build(sample)))
        return outs
    st, val = guarded(go, 60.0)
    if st == "hang":
        return False, "hang", {"observed": "non-termination"}
    if st == "exc":
        return False, "raised:" + exc_sig(val), {"observed": repr(val)[:300]}
    exp = expected_tracks(positions, binlen)
    if len(val) != len(exp):
        return False, "track-count", {"expected": len(exp), "observed": len(val)}
    cat = bytearray()
    for i, ((name, wav), (a, b)) in enumerate(zip(val, exp)):
        w = riff.validate(wav)
        if w.errors:
            return False, "invalid-wav", {"track": i + 1, "errors": w.errors[:3]}
        if (w.fmt["channels"], w.fmt["rate"], w.fmt["bits"]) != (2, 44100, 16):
            return False, "fmt", {"track": i + 1, "fmt": w.fmt}
        want = Q.frames_bytes(a, b - a)
        if w.data != want:
            k = next((j for j in range(min(len(want), len(w.data))) if want[j] != w.data[j]), min(len(want), len(w.data)))
            return False, "pcm", {"track": i + 1, "expected_window": [a, b], "expected_len": len(want),
                                  "observed_len": len(w.data), "first_difference": k}
        cat += w.data
    a0 = Q.SECTOR * positions[0]
    if bytes(cat) != Q.frames_bytes(a0, exp[-1][1] - a0):
        return False, "tiling", {"observed": "concatenation differs from bin[first index:]"}
    return True, f"ok:{len(exp)}tracks", None


# titles whose shape invites special treatment by naming code; the oracle for these cases ignores the file names
TITLE_SETS = {"dup": ["SAME"], "lr": ["PAD L", "PAD R", "PAD-L", "PAD-R"], "lr_only": ["L", "R", "-L", "-R"],
              "dots": ["TRK.1", "TRK.2", "TRK.", ".TRK"], "unsafe": ["a/b", "a:b", "..", "a\\b"], "case": ["Trk", "TRK", "trk", "TrK"],
              "numbered": ["T", "T (2)", "T (2)", "T"], "wavext": ["Intro", "Intro.wav", "INTRO.WAV", "Intro.wav.wav"],
              # titles that differ only in trailing dots / blanks (characters some file systems drop at the end of a name)
              "trailing": ["Wait for it", "Wait for it...", "Take 1.", "Take 1.."], "trailing2": ["End", "End .", "End. ", "End"],
              "keywords": ["Soundtrack 2 Reprise", "my track 09 audio mix", "INDEX 01 00:00:00", "FILE x BINARY", "TITLE", "REM"]}


def run_files(case):
    positions, binlen = case["positions"], case["binlen"]
    tracks = make_tracks(positions, [tuple(o) for o in case["opts"]])
    if case.get("titles"):
        for i, t in enumerate(tracks):
            t["title"] = TITLE_SETS[case["titles"]][i % len(TITLE_SETS[case["titles"]])]
    if case.get("bloat"):
        # long sheets: the legal maximum of 99 tracks, each with several ignorable lines
        for i, t in enumerate(tracks):
            t["extra"] = ['PERFORMER "Somebody with a rather long name %02d"' % i, "REM " + "x" * case["bloat"], "FLAGS DCP"]
    with scratch_dir("c03") as d:
        with open(os.path.join(d, "disc.bin"), "wb") as f:
            f.write(Q.bin_bytes(binlen))
        cue = os.path.join(d, "disc.cue")
        with open(cue, "w") as f:
            f.write(Q.cue_text("disc.bin", tracks))
        res = tree.full_run(cue, cpu_s=60.0, ls_paths=("",), again=True)
    if res["status"] == "hang":
        return False, "hang", {"observed": "non-termination"}
    if res.get("again"):
        return False, "second-export-differs", res["again"]
    if res["status"] == "exc":
        return False, "raised:" + exc_sig(res["exc"]), {"observed": repr(res["exc"])[:300]}
    exp = {}
    for t, (a, b) in zip(titles_of(tracks), expected_tracks(positions, binlen)):
        exp[t + ".wav"] = (2, 44100, Q.frames_bytes(a, b - a))
    if case.get("titles"):
        # equal / pair-shaped / dotted / unsafe titles: the file names are the tool's business, but there is one file per track and together they
        # hold exactly the track windows
        want = sorted(Q.frames_bytes(a, b - a) for a, b in expected_tracks(positions, binlen))
        got = []
        for p_, b_ in res["files"].items():
            w = riff.validate(b_)
            if w.errors:
                return False, "invalid-wav", {"path": p_, "errors": w.errors[:2]}
            got.append(w.data)
        if sorted(got) != want or len(res["reported"]) != len(want):
            return False, case["titles"] + "-titles-tracks-lost", {"tracks": len(want), "files": sorted(res["files"]), "reported": res["reported"]}
        return True, f"files-ok-{case['titles']}:{len(want)}", None
    errs = tree.compare_export(exp, res["files"], res["reported"])
    if errs:
        return False, "files-mismatch", {"errors": errs[:3]}
    return True, f"files-ok:{len(exp)}", None


def msf_shard(m_lo, m_hi, rep):
    from smpl_extract.cuesheet import CueSheetIndex
    for m in range(m_lo, m_hi):
        bad = None
        n = 0
        for s in range(60):
            for f in range(75):
                got = CueSheetIndex(1, m, s, f).get_total_audio_frames()
                n += 1
                if got != (60 * m + s) * 75 + f and bad is None:
                    bad = (s, f, got)
        case = {"kind": "msf", "minute": m}
        if bad:
            rep.case(case, ok=False, klass="msf-wrong", nontrivial=True, sig="msf",
                     detail={"msf": [m, bad[0], bad[1]], "expected": (60 * m + bad[0]) * 75 + bad[1], "observed": bad[2]})
        else:
            rep.case(case, klass="msf-minute-ok", nontrivial=m > 0)
        rep.extra["msf_points"] = rep.extra.get("msf_points", 0) + n


class Check(CheckBase):
    id = "C03"
    level = "exploration"
    title = "CDDA tracks tile the bin file exactly at the cue sheet's index positions"
    rule = ("(i) CueSheetIndex arithmetic on the complete domain MM 0..99 x SS 0..59 x FF 0..74 (450 000 points, one case "
            "per minute); (ii) all strictly increasing first-index position tuples of 1..4 tracks over P (|P|=6 quick, 9 "
            "thorough) x per-track {one INDEX | INDEX 00+01} x {TITLE | none} under deviation bound 1 x bin length = last "
            "index*2352 + r for r in {0,1,2,3,4,5,2351,2352,2353,4704}, on a virtual position-coded bin through "
            "parse_cue_sheet/from_bin_cue/WAV builder; minute-carry positions 4499/4500/4501; TRACK numbers that are not 1..n in sheet order "
            "(3/9/10/42, counting down, restarting, first one highest, all equal, 0 and 99, numbers of three and four digits) with unusual INDEX numbers; the mode keyword spelled audio / Audio / aUDIO per track; (iii) a subset through real "
            ".cue/.bin files and the full ls/export run, incl. sheets of 50, 98, 99, 100 and 103 tracks with 0..700 bytes of ignorable lines per "
            "track (sheets of 3 KB .. 80 KB), and 10 title families whose shape invites special treatment by naming "
            "code (equal, L/R-pair shaped, bare L/R, dotted, unsafe characters, case-only differences, '(2)'-numbered, with and without a '.wav' ending, differing only in trailing dots / blanks, titles that contain cue keywords such as 'track 2 reprise') judged "
            "by content only: one file per track, together exactly the track windows. non-trivial = >=2 tracks, or an MSF carry, or a ragged bin tail")
    assumptions = ["bin content is frame-position coded (LE32(k*2654435761)), so any foreign window is visible"]

    def shards(self):
        out = []
        for m in range(0, 100, 10):
            out.append({"kind": "msf", "lo": m, "hi": m + 10})
        P = P_QUICK if self.quick else P_FULL
        cases = []
        for k in (1, 2, 3, 4):
            for positions in itertools.combinations(P, k):
                for opts in track_variants(k):
                    for r in RESIDUES:
                        cases.append({"kind": "virtual", "positions": list(positions), "opts": [list(o) for o in opts],
                                      "binlen": Q.SECTOR * positions[-1] + r})
        # unusual but legal numbering: track numbers 3, 9, 10, 42; first INDEX line numbered 02 or 05..08; track numbers counting down, restarting, first one highest, all equal, 0 / 99
        for k in (1, 2, 3, 4):
            for positions in list(itertools.combinations(P, k))[::2]:
                for opts in ([("one", False)] * k, [("two", True)] * k):
                    for r in (0, 3, 2353):
                        cases.append({"kind": "virtual", "positions": list(positions), "opts": [list(o) for o in opts],
                                      "binlen": Q.SECTOR * positions[-1] + r, "numbering": "odd"})
        # track numbers that are not ascending in sheet order (count down, restart, first one highest, all equal, 0 / 99)
        for numbering in ("desc", "restart", "firsthigh", "equal", "zero", "wide", "widefirst"):
            for k in (2, 3, 4):
                for positions in list(itertools.combinations(P, k))[::2]:
                    for opts in ([("one", False)] * k, [("two", True)] * k):
                        for r in (0, 3):
                            cases.append({"kind": "virtual", "positions": list(positions), "opts": [list(o) for o in opts],
                                          "binlen": Q.SECTOR * positions[-1] + r, "numbering": numbering})
        # the track mode keyword in other spellings (keywords of a cue sheet are not case-sensitive), per track
        for modes in (["audio"], ["Audio"], ["AUDIO", "audio"], ["Audio", "AUDIO", "aUDIO"]):
            for k in (1, 2, 3, 4):
                for positions in list(itertools.combinations(P, k))[::3]:
                    for opts in ([("one", False)] * k, [("two", True)] * k):
                        cases.append({"kind": "virtual", "positions": list(positions), "opts": [list(o) for o in opts],
                                      "binlen": Q.SECTOR * positions[-1] + 3, "modes": modes})
        # minute carry (virtual 10.6 MB bin)
        for positions in ([4499, 4500], [4500, 4501], [0, 4500], [75, 4499, 4501]):
            for r in (0, 3, 2352):
                cases.append({"kind": "virtual", "positions": positions, "opts": [["one", False]] * len(positions),
                              "binlen": Q.SECTOR * positions[-1] + r})
        # real files subset
        files = []
        for positions in ([0], [0, 2], [1, 75, 76], [0, 1, 2, 150]):
            for opts in track_variants(len(positions)):
                for r in (0, 3, 2353):
                    files.append({"kind": "files", "positions": positions, "opts": [list(o) for o in opts],
                                  "binlen": Q.SECTOR * positions[-1] + r})
        if self.quick:
            files = files[::3]
        # (100 and 103 tracks: more than a disc holds, but TRACK numbers are labels and every TRACK line starts a track)
        for n in (50, 98, 99, 100, 103):
            for bloat in (0, 40, 200, 700):
                files.append({"kind": "files", "positions": list(range(0, 2 * n, 2)), "opts": [["one", True]] * n,
                              "binlen": Q.SECTOR * (2 * n) + 3, "bloat": bloat})
        for ts in sorted(TITLE_SETS):
            for positions in ([0, 2], [1, 75, 76], [0, 1, 2, 150]):
                for r in (0, 3):
                    files.append({"kind": "files", "positions": positions, "opts": [["one", True]] * len(positions),
                                  "binlen": Q.SECTOR * positions[-1] + r, "titles": ts})
        out += self.chunk(cases, 150)
        out += self.chunk(files, 8)
        return out

    def run_shard(self, shard, rep: Report):
        if "replay_case" in shard:
            cases = [shard["replay_case"]]
        elif shard.get("kind") == "msf":
            return msf_shard(shard["lo"], shard["hi"], rep)
        else:
            cases = shard["cases"]
        for case in cases:
            if case["kind"] == "msf":
                msf_shard(case["minute"], case["minute"] + 1, rep)
                continue
            ok, klass, detail = run_virtual(case) if case["kind"] == "virtual" else run_files(case)
            pos = case["positions"]
            nt = len(pos) >= 2 or (case["binlen"] - Q.SECTOR * pos[-1]) % 4 != 0 or any(p >= 75 for p in pos)
            rep.case(case, ok=ok, klass=klass, nontrivial=nt, detail=detail, sig=f"{case['kind']}:{klass}")
