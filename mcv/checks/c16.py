"""C16 -- results depend only on the image bytes, not on what was looked at before.

All operation histories (ls at every node path, invalid paths, export) up to a bounded length on
ONE live image object; the observable of the last operation is compared with the observable of
the same operation on a fresh object.
"""
import hashlib
import io
import itertools
import os

from mcv.engine import core, tree
from mcv.engine.core import CheckBase, Report, exc_sig, guarded, scratch_dir
from mcv.gen import akai as A
from mcv.gen import akai_program as AP
from mcv.gen import roland as R
from mcv.gen import cue as Q


def akai_payload():
    prog = AP.simple_program("PROG", 2, ("ONE", "PAD-L")).hex()
    parts = []
    seq = 0
    for p in range(2):
        vols = []
        sec = 3
        for v in range(2):
            d = sec
            sec += 1
            files = []
            for nm, n in (("ONE", 300), ("PAD-L", 5000), ("PAD-R", 5000)) if v == 0 else (("SOLO", 4026),):
                seq += 1
                m = A.needed_sectors(140 + 2 * n)
                ch = list(range(sec, sec + m))[::-1]
                sec += m
                f = {"name": nm, "n": n, "chain": ch, "seq": seq}
                # differing sample rates, and one header whose rate field is 0 (whatever the tool makes of it, it must make
                # the same of it whatever was read before)
                f["rate"] = {"ONE": 22050 if p == 0 else 32000, "PAD-L": 32000 if p == 0 else 22050, "PAD-R": 32000 if p == 0 else 22050, "SOLO": 0}[nm]
                if nm == "SOLO":
                    f["start"], f["end"] = 30, n - 7      # play window not starting at 0: loop points relative to it
                if nm in ("ONE", "SOLO"):
                    # active loops (two finite, one held forever): everything that is derived from the loop table
                    f["hdr"] = {"loop_type": 1 if nm == "ONE" else 0, "loops": [(100, 0, 40, 250), (200, 0, 50, 9999), (0, 0, 0, 0), (250, 3, 20, 7)]}
                files.append(f)
            if v == 0:
                files.append({"name": "PROG", "kind": "raw", "ftype": 0xF0, "chain": [sec], "data": prog})
                sec += 1
            # (VOL1 is flagged as an S1000 volume although its file is of the S3000 kind: what a listing says about a
            # volume must not depend on whether the volume was looked into)
            vols.append({"name": f"VOL{v}", "dir": [d], "files": files, **({"type": 1} if v == 1 else {})})
        parts.append({"vols": vols})
    return A.build_akai(A.model_from_spec({"parts": parts}))[0]


def akai_payload2():
    """same partition/volume/file names as akai_payload(), different lengths, PCM and header values"""
    prog = AP.simple_program("PROG", 1, ("SOLO",)).hex()
    parts = []
    seq = 40
    for p in range(2):
        vols = []
        sec = 3
        for v in range(2):
            d = sec
            sec += 1
            files = []
            for nm, n in (("ONE", 777), ("PAD-L", 1200), ("PAD-R", 1200)) if v == 0 else (("SOLO", 555),):
                seq += 1
                m = A.needed_sectors(140 + 2 * n)
                ch = list(range(sec, sec + m))
                sec += m
                files.append({"name": nm, "n": n, "chain": ch, "seq": seq, "rate": 22050})
            if v == 0:
                files.append({"name": "PROG", "kind": "raw", "ftype": 0xF0, "chain": [sec], "data": prog})
                sec += 1
            vols.append({"name": f"VOL{v}", "dir": [d], "files": files})
        parts.append({"vols": vols})
    return A.build_akai(A.model_from_spec({"parts": parts}))[0]


def akai_payload3():
    """names that are sanitised differently depending on their role (directory / file), names that need sanitising, and
    the SAME raw name used for a volume in one partition and for a sample in another (and the other way round)"""
    layout = [[("DRUMS", ["KICK-", "X.", "A+B", "SNARE"]), ("SNARE", ["DRUMS", "KICK-"]), ("DRUMS", ["TWIN", "SNARE"])],
              [("KICK-", ["SNARE", "X."]), ("X.", ["KICK-", "A+B", "DRUMS"]), ("KICK-", ["OTHER", "SNARE", "SNARE"])]]
    # (two volumes of one partition with the SAME stored name -- listed as NAME and NAME (2) -- and equal file names inside)
    parts = []
    seq = 80
    for vols_spec in layout:
        vols = []
        sec = 3
        for vname, names in vols_spec:
            d = sec
            sec += 1
            files = []
            for nm in names:
                seq += 1
                files.append({"name": nm, "n": 200 + seq, "chain": [sec], "seq": seq})
                sec += 1
            vols.append({"name": vname, "dir": [d], "files": files})
        parts.append({"vols": vols})
    return A.build_akai(A.model_from_spec({"parts": parts}))[0]


def akai_payload4():
    """a DAMAGED image (its second partition holds a volume with two unparsable files (wiped header; declared size shorter than a header) and two files of kinds the tool does not decode (DRUM, EFFECT) among good ones): the second volume's entry points to a start sector outside the allocation table, so that volume
    cannot be realised; requests that touch it fail -- and must fail the same way whatever happened before"""
    import struct
    spec = {"parts": [{"vols": [
        {"name": "GOOD", "dir": [3], "files": [{"name": "SMP", "n": 300, "chain": [4], "seq": 1}, {"name": "TWO", "n": 200, "chain": [5], "seq": 2}]},
        {"name": "BAD", "dir": [6], "files": [{"name": "LOST", "n": 100, "chain": [7], "seq": 3}]},
        {"name": "LAST", "dir": [8], "files": [{"name": "END", "n": 150, "chain": [9], "seq": 4}]}]},
        # second partition: a volume that CAN be realised but holds one entry whose file header is wiped (sample id 0):
        # only that file is lost, and the listing of the others must not depend on how often the volume was looked at
        {"vols": [{"name": "HOLE", "dir": [3], "files": [{"name": "KICK", "n": 120, "chain": [4], "seq": 5}, {"name": "WIPED", "n": 90, "chain": [5], "seq": 6},
                                                         {"name": "SNARE", "n": 110, "chain": [6], "seq": 7},
                                                         # (its entry declares 30 bytes: too short to hold a sample header)
                                                         {"name": "SHORT", "n": 70, "chain": [7], "seq": 8},
                                                         # (files of kinds the tool does not decode: drum settings, an effects file)
                                                         {"name": "KIT", "kind": "raw", "ftype": 0x64, "chain": [8], "data": bytes(range(80)).hex()},
                                                         {"name": "FX", "kind": "raw", "ftype": 0x78, "chain": [9], "data": bytes(range(60)).hex()}]}]}]}
    img, layout = A.build_akai(A.model_from_spec(spec))
    b = bytearray(img)
    struct.pack_into("<H", b, layout["p0.vol1.entry"][0] + 14, 0x3000)
    b[layout["p1.vol0.file1.data"][0]] = 0
    e = layout["p1.vol0.file3.entry"][0]
    b[e + 17:e + 20] = (30).to_bytes(3, "little")
    return bytes(b)


def akai_payload5():
    """an INCOMPLETE copy: the image file ends inside the audio of the second sample (sector 6 of chain 5, 6), and inside
    the right half of an L/R pair; the headers are readable, the export writes the audio that is there"""
    spec = {"parts": [{"vols": [{"name": "VOL", "dir": [3], "files": [
        {"name": "WHOLE", "n": 300, "chain": [4], "seq": 1},
        {"name": "PAD-L", "n": 5000, "chain": [7, 8], "seq": 3},
        {"name": "PAD-R", "n": 5000, "chain": [9, 10], "seq": 4},
        {"name": "CUT", "n": 6000, "chain": [5, 11], "seq": 2}]}]}]}
    img = A.build_akai(A.model_from_spec(spec))[0]
    return img[:10 * A.SECTOR + 1000]


def akai5_paths():
    return ["", "A:", "A:/VOL", "A:/VOL/WHOLE", "A:/VOL/CUT", "A:/VOL/PAD-L", "nope"]


def akai4_paths():
    return ["", "A:", "A:/GOOD", "A:/BAD", "A:/LAST", "A:/GOOD/SMP", "A:/BAD/LOST", "A:/LAST/END", "A:/BAD/x", "nope",
            "B:", "B:/HOLE", "B:/HOLE/KICK", "B:/HOLE/SNARE", "B:/HOLE/WIPED", "B:/HOLE/SHORT", "B:/HOLE/KIT"]


def discover_paths(fmt, depth=3):
    """every path reachable through the listings of a fresh object (breadth first), plus three invalid ones"""
    from mcv.checks.c10 import parse_table
    out = [""]
    frontier = [""]
    for _ in range(depth):
        nxt = []
        for p in frontier:
            names = parse_table(tree.ls(tree.open_image(payload(fmt)), p)) or []
            for n in names:
                q = n if p == "" else p + "/" + n
                if n.strip() and q not in out:
                    out.append(q)
                    nxt.append(q)
        frontier = nxt
    return out + ["nope", out[1] + "/nope" if len(out) > 1 else "x/nope"]


def akai_paths():
    out = ["", "A:", "B:"]
    for p in "AB":
        for v in range(2):
            out.append(f"{p}:/VOL{v}")
    out += ["A:/VOL0/ONE", "A:/VOL0/PAD-L", "A:/VOL0/PROG", "B:/VOL1/SOLO", "B:/VOL0/PAD-R"]
    return out + ["nope", "A:/nope", "A:/VOL0/ONE/deeper"]


def roland_payload():
    samples = {i: {"name": f"SMP{i}", "chain": [2 + i], "points": [0, 0, 300 + i, 0, 100], "mode": [0, 5, 2, 1][i % 4], "seq": i + 1}
               for i in range(6)}
    # a reverse-mode sample and a sample whose start point is not 0 (windows derived from the points)
    samples[4].update(name="BACK", mode=5, points=[7, 7, 250, 7, 100])
    samples[5].update(name="LATE", mode=2, points=[40, 40, 290, 40, 100])
    # two samples living in ONE fragmented cluster chain (told apart by their leading-cluster offset), in different performances
    samples[6] = {"name": "HALFA", "chain": [20, 23, 21], "cluster_top": 0, "points": [0, 0, 9000, 0, 100], "mode": 2, "seq": 9}
    samples[7] = {"name": "HALFB", "chain": [20, 23, 21], "cluster_top": 1, "points": [1, 1, 9001, 1, 100], "mode": 2, "seq": 9}
    samples[1]["name"], samples[2]["name"] = "PAD L", "PAD R"
    samples[1]["mode"] = samples[2]["mode"] = 2
    samples[1]["points"] = samples[2]["points"] = [0, 0, 400, 0, 100]
    model = {"volumes": [{"name": "VOLA", "perfs": [0]}, {"name": "VOLB", "perfs": [1]}],
             "performances": {0: {"name": "PERF0", "patches": [0]}, 1: {"name": "PERF1", "patches": [1]}, 2: {"name": "LOST", "patches": [0]}},
             "patches": {0: {"name": "PATCH0", "partials": [0, 2]}, 1: {"name": "PATCH1", "partials": [1]}},
             "partials": {0: {"name": "PART0", "samples": [0, 1, 2, 4]}, 1: {"name": "PART1", "samples": [3, 0, 5, 7]},
                          2: {"name": "PART2", "samples": [6]}},
             "samples": samples}
    return R.build_roland(model)[0]


def roland_paths():
    return ["", "VOLA", "VOLB", "_Orphan_perf", "VOLA/PERF0", "VOLB/PERF1", "_Orphan_perf/LOST", "VOLA/PERF0/SMP0",
            "VOLA/PERF0/PATCH0", "VOLB/PERF1/SMP3", "VOLA/PERF0/PAD L", "VOLA/PERF0/BACK", "VOLB/PERF1/LATE", "VOLA/PERF0/HALFA", "VOLB/PERF1/HALFB", "nope", "VOLA/nope",
            "VOLA/PERF0/SMP0/x"]


def cdda_open(d):
    tracks = [{"number": 1, "title": "ONE", "indices": [(1, 0)]}, {"number": 2, "title": "ONE", "indices": [(1, 2)]},
              {"number": 3, "title": None, "indices": [(0, 3), (1, 4)]}]
    with open(os.path.join(d, "disc.bin"), "wb") as f:
        f.write(Q.bin_bytes(Q.SECTOR * 6 + 1002))
    p = os.path.join(d, "disc.cue")
    with open(p, "w") as f:
        f.write(Q.cue_text("disc.bin", tracks))
    return p


def cdda_paths():
    return ["", "ONE", "ONE (2)", "Untitled Track 3", "nope", "ONE/x"]


_PAY = {}


def payload(fmt):
    if fmt not in _PAY:
        _PAY[fmt] = {"akai": akai_payload, "roland": roland_payload, "akai2": akai_payload2, "akai3": akai_payload3, "akai4": akai_payload4, "akai5": akai_payload5}[fmt]()
    return _PAY[fmt]


def pristine_baseline(fmt):
    """observables of every single operation on a fresh object, computed in a NEW process (so that state kept at
    module level by the code under test cannot leak from earlier cases of a long-lived worker into the baseline)"""
    import json
    import subprocess
    import sys
    r = subprocess.run([sys.executable, "-B", "-m", "mcv.checks.c16", "baseline", fmt], cwd=core.VERIF, capture_output=True,
                       text=True, timeout=600, env=dict(os.environ, PYTHONHASHSEED="0"))
    if r.returncode != 0:
        raise core.HarnessError("baseline process failed: " + r.stderr[-400:])
    return json.loads(r.stdout.strip().splitlines()[-1])


def _baseline_main(fmt):
    import json
    out = {}
    with scratch_dir("c16b") as d:
        subj = Subject(fmt, d)
        if fmt == "akai3":
            subj.paths = discover_paths(fmt)
            out["__paths__"] = subj.paths
        ops = subj.ops()
        for op in [o for o in ops if o[0] != "ls"] + [o for o in ops if o[0] == "ls"]:
            st, val = guarded(lambda: run_history(subj, [op]), 120.0)
            out[repr(op)] = [st, list(val) if st == "ok" else repr(val)[:200]]
    print(json.dumps(out))


class Subject:
    def __init__(self, fmt, scratch, paths=None):
        self.fmt, self.scratch = fmt, scratch
        self.paths = paths
        self.n = 0
        if fmt == "cdda":
            self.path = cdda_open(scratch)
        elif fmt.endswith("_file"):
            self.path = os.path.join(scratch, "image.img")
            with open(self.path, "wb") as f:
                f.write(payload(fmt[:-5]))
            os.chmod(self.path, 0o444)

    def ops(self):
        base = self.fmt.replace("_file", "").replace("akai2", "akai")
        if self.paths is not None:
            paths = self.paths
        elif base == "akai4":
            paths = akai4_paths()
        elif base == "akai5":
            paths = akai5_paths()
        else:
            paths = {"akai": akai_paths, "roland": roland_paths, "cdda": cdda_paths}[base]()
        return [["ls", p] for p in paths] + [["export"], ["export_same"]]

    def fresh(self):
        if self.fmt in ("akai", "roland", "akai2", "akai3", "akai4", "akai5"):
            self.bio = io.BytesIO(payload(self.fmt))
            from smpl_extract.actions import determine_image_type
            return determine_image_type(self.bio)
        return tree.open_image(self.path)

    def unchanged(self):
        if self.fmt in ("akai", "roland", "akai2", "akai3", "akai4", "akai5"):
            return self.bio.getvalue() == payload(self.fmt)
        if self.fmt == "cdda":
            with open(os.path.join(self.scratch, "disc.bin"), "rb") as f:
                return f.read() == Q.bin_bytes(Q.SECTOR * 6 + 1002)
        with open(self.path, "rb") as f:
            return f.read() == payload(self.fmt[:-5])

    def apply(self, img, op):
        if self.fmt in ("akai4", "akai5"):
            # on the damaged image a request may fail: then HOW it fails is the observable
            try:
                return self._apply(img, op)
            except Exception as e:  # noqa
                return ("raised", op[0], type(e).__name__)
        return self._apply(img, op)

    def _apply(self, img, op):
        if op[0] == "ls":
            return ("ls", tree.ls(img, op[1]))
        self.n += 1
        dest = os.path.join(self.scratch, f"out{self.n}")
        if op[0] == "export_same":
            # always the same destination: a second export writes over the files of the first
            dest = os.path.join(self.scratch, "same")
        out, files, reported = tree.export(img, dest)
        h = hashlib.sha1()
        for p in sorted(files):
            h.update(p.encode() + b"\0" + hashlib.sha1(files[p]).digest())
        return ("export", out, sorted(files), h.hexdigest())


def run_history(subj, hist):
    import shutil
    shutil.rmtree(os.path.join(subj.scratch, "same"), ignore_errors=True)
    img = subj.fresh()
    obs = None
    for op in hist:
        obs = subj.apply(img, op)
    return obs


class Check(CheckBase):
    id = "C16"
    level = "model_checking"
    title = "Results depend only on the image bytes, not on what was looked at before"
    rule = ("per image (AKAI: 2 partitions x 2 volumes, differing sample rates and a rate field of 0, an S1000-flagged volume holding an S3000 file, L/R pair, fragmented chains, a program, a file filling its last "
            "sector; Roland: 2 volumes + orphan performance, shared sample, reverse mode, start point > 0, two samples in one cluster chain reached through different performances, L/R pair; CDDA: duplicate and missing "
            "titles; AKAI and Roland again as read-only real files; a DAMAGED AKAI image (one volume cannot be realised: requests touching it fail, and must fail the same way under every history; its second partition holds a volume with two unparsable files (wiped header; declared size shorter than a header) and two files of kinds the tool does not decode (DRUM, EFFECT) among good ones); an INCOMPLETE AKAI image that ends inside a mono sample's audio and inside the right half of an L/R pair; a third AKAI image whose names are sanitised differently by role "
            "(ending in '-' / '.', '+'), where one raw name is a volume in one partition and a sample in another and where two "
            "sibling volumes (and two sibling files) carry the same stored name, paths discovered through its own listings) the alphabet is ls(p) for every node path p, three invalid "
            "paths, export into a fresh directory, and export into one fixed directory (so that a repeated export writes over "
            "its own files); ALL histories of length <=2 (quick) / <=3 (thorough; Roland <=2 plus all length-3 histories "
            "ending in export) run on ONE image object; oracle: observable of the last operation (stdout; exported paths + "
            "content digest) equals that of the same operation on a fresh object IN A NEW PROCESS (baselines are computed in "
            "pristine subprocesses), and the image bytes are unchanged; cross-image histories: one operation on an AKAI image, "
            "then one on a second AKAI image with the same names but other bytes, in the same process. states = "
            "histories, transitions = operations. non-trivial = history of length >=2")
    assumptions = ["observable = captured stdout, exported relative paths and file bytes"]

    def shards(self):
        out = []
        self._base = {}
        for fmt in ("akai", "roland", "cdda", "akai2", "akai3", "akai4", "akai5"):
            self._base[fmt] = pristine_baseline(fmt)
        # cross-image histories: one operation on image A, then one on image B (same names, other bytes) in the same process
        with scratch_dir("c16s") as d:
            nops = len(Subject("akai", d).ops())
        for first in range(nops):
            out.append({"fmt": "akai_cross", "first": first, "baseline": self._base["akai2"]})
        for fmt in ("akai", "roland", "cdda", "akai_file", "roland_file", "akai3", "akai4", "akai5"):
            with scratch_dir("c16s") as d:
                nops = len(Subject(fmt, d, self._base.get(fmt, {}).get("__paths__")).ops())
            base = fmt.replace("_file", "")
            maxlen = 2 if self.quick else 3
            if fmt.endswith("_file") and not self.quick:
                maxlen = 2
            for first in range(nops):
                if base == "roland" and self.quick:
                    for second in range(0, nops, 4):
                        out.append({"fmt": fmt, "first": first, "maxlen": maxlen, "second": [second, min(nops, second + 4)],
                                    "baseline": self._base[base]})
                else:
                    out.append({"fmt": fmt, "first": first, "maxlen": maxlen, "baseline": self._base[base]})
        return out

    def run_shard(self, shard, rep: Report):
        if "replay_case" in shard:
            c = shard["replay_case"]
            with scratch_dir("c16") as d:
                subj = Subject(c["fmt"], d, c.get("paths"))
                self._one(subj, c["history"], rep, {})
            return
        if shard["fmt"] == "akai_cross":
            return self._cross(shard, rep)
        with scratch_dir("c16") as d:
            subj = Subject(shard["fmt"], d, shard.get("baseline", {}).get("__paths__"))
            ops = subj.ops()
            cache = {k: (v[0], tuple(v[1]) if v[0] == "ok" else v[1]) for k, v in shard.get("baseline", {}).items() if k != "__paths__"}
            first = ops[shard["first"]]
            hists = [[first]]
            if shard["maxlen"] >= 2:
                lo, hi = shard.get("second", [0, len(ops)])
                for b in ops[lo:hi]:
                    hists.append([first, b])
                    if shard["maxlen"] >= 3:
                        base = shard["fmt"].replace("_file", "")
                        for c in ops:
                            if base == "roland" and c[0] != "export" and b[0] != "export" and first[0] != "export":
                                continue
                            hists.append([first, b, c])
            if "second" in shard and shard["second"][0] > 0:
                hists = hists[1:]
            for h in hists:
                self._one(subj, h, rep, cache)

    def _cross(self, shard, rep):
        base = {k: (v[0], tuple(v[1]) if v[0] == "ok" else v[1]) for k, v in shard["baseline"].items()}
        with scratch_dir("c16x") as d:
            a, b = Subject("akai", d), Subject("akai2", os.path.join(d, "b"))
            os.makedirs(os.path.join(d, "b"), exist_ok=True)
            ops = a.ops()
            first = ops[shard["first"]]
            for last in ops:
                case = {"fmt": "akai_cross", "history": [first, last]}
                rep.states += 1
                rep.transitions += 2
                rep.traces += 1
                st0, want = base.get(repr(last), ("missing", None))
                if st0 != "ok":
                    continue

                def go():
                    run_history(a, [first])
                    return run_history(b, [last])
                st, got = guarded(go, 180.0)
                if st != "ok":
                    rep.case(case, ok=False, klass="raised" if st == "exc" else "hang", nontrivial=True,
                             sig="akai_cross:" + ("raised:" + exc_sig(got) if st == "exc" else "hang"), detail={"observed": repr(got)[:200]})
                elif tuple(got) != tuple(want):
                    rep.case(case, ok=False, klass="depends-on-another-image", nontrivial=True,
                             sig=f"akai_cross:depends-on-another-image:{last[0]}-after-{first[0]}",
                             detail={"fresh": repr(want)[:300], "observed": repr(got)[:300]})
                else:
                    rep.case(case, klass=f"cross-same:{last[0]}", nontrivial=True)

    def _one(self, subj, hist, rep, cache):
        last = hist[-1]
        key = repr(last)
        if key not in cache:
            st, val = guarded(lambda: run_history(subj, [last]), 120.0)
            cache[key] = (st, val)
        st0, want = cache[key]
        case = {"fmt": subj.fmt, "history": hist}
        rep.states += 1
        rep.transitions += len(hist)
        rep.traces += 1
        if st0 != "ok":
            rep.case(case, ok=False, klass="fresh-op-failed", nontrivial=True, sig=f"{subj.fmt}:fresh-" + (exc_sig(want) if st0 == "exc" else "hang"),
                     detail={"op": last, "observed": repr(want)[:200]})
            return
        st, got = guarded(lambda: run_history(subj, hist), 180.0)
        nt = len(hist) >= 2
        if st != "ok":
            rep.case(case, ok=False, klass="raised" if st == "exc" else "hang", nontrivial=nt,
                     sig=f"{subj.fmt}:" + ("raised:" + exc_sig(got) if st == "exc" else "hang"), detail={"observed": repr(got)[:200]})
            return
        if tuple(got) != tuple(want):
            if got[0] == "raised" or want[0] == "raised":
                d = {"fresh": repr(want)[:200], "observed": repr(got)[:200]}
            elif got[0] == "export":
                d = {"fresh_files": want[2][:6], "files": got[2][:6], "same_paths": want[2] == got[2], "same_stdout": want[1] == got[1],
                     "same_bytes": want[3] == got[3]}
            else:
                d = {"fresh": want[1][:300], "observed": got[1][:300]}
            rep.case(case, ok=False, klass="history-dependent", nontrivial=nt, sig=f"{subj.fmt}:history-dependent:{last[0]}-after-{hist[-2][0] if len(hist) > 1 else 'nothing'}", detail=d)
            return
        if not subj.unchanged():
            rep.case(case, ok=False, klass="image-modified", nontrivial=nt, sig=f"{subj.fmt}:image-modified")
            return
        rep.case(case, klass=f"same:{last[0]}:len{len(hist)}", nontrivial=nt)


if __name__ == "__main__":
    import sys
    if len(sys.argv) == 3 and sys.argv[1] == "baseline":
        _baseline_main(sys.argv[2])
