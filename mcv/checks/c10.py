"""C10 -- every item `ls` shows can be addressed by the names shown; other paths say so."""
import io
import itertools
import os
import re

from mcv.engine import core, tree
from mcv.engine.core import CheckBase, Report, exc_sig, guarded, scratch_dir
from mcv.gen import akai as A
from mcv.gen import roland as R
from mcv.gen import cue as Q
from mcv.checks.c06 import AKAI_FILE, AKAI_DIR, HOSTILE

SEPS = ["/", "\\", "\\\\"]


# ----------------------------------------------------------------------------- images + logical trees
# logical tree node: {"kind": "dir"|"leaf", "marker": str|None, "children": [...]}
def akai_tree(vol_names, file_names):
    parts = []
    tree_ = {"kind": "dir", "children": []}
    g = 0
    for p in range(2):
        vols = []
        pn = {"kind": "dir", "children": []}
        sec = 3
        for v, vn in enumerate(vol_names):
            files = []
            vnode = {"kind": "dir", "children": []}
            d = sec
            sec += 1
            for f, fn in enumerate(file_names):
                n = 12 + g
                g += 1
                if fn.split(":")[0] in ("drum", "ql", "fx"):
                    # DRUM / QL / EFFECT files: legal on a disk, not items of the tree (nothing is listed for them)
                    ft = {"drum": 0x64, "ql": 0x71, "fx": 0x78}[fn.split(":")[0]]
                    files.append({"name": fn.split(":", 1)[1], "kind": "raw", "ftype": ft, "chain": [sec], "data": bytes(range(64)).hex()})
                elif fn.startswith("prog:"):
                    # a PROGRAM file (another kind of item, same name space): told apart by the sample name its keygroup refers to
                    from mcv.gen import akai_program as AP
                    ref = "ZQ%04d" % g
                    files.append({"name": fn[5:], "kind": "raw", "ftype": 0xF0, "chain": [sec],
                                  "data": AP.simple_program(fn[5:], 1, (ref,)).hex()})
                    vnode["children"].append({"kind": "leaf", "marker": ref})
                else:
                    files.append({"name": fn, "n": n, "chain": [sec], "seq": g})
                    vnode["children"].append({"kind": "leaf", "marker": f"samples_cnt: {n}"})
                sec += 1
            vols.append({"name": vn, "dir": [d], "files": files})
            pn["children"].append(vnode)
        parts.append({"vols": vols})
        tree_["children"].append(pn)
    img = A.build_akai(A.model_from_spec({"parts": parts}))[0]
    return img, tree_


def roland_tree(vol_names, perf_names, smp_names):
    model = {"volumes": [], "performances": {}, "patches": {}, "partials": {}, "samples": {}, "pad": "\0"}
    tree_ = {"kind": "dir", "children": []}
    pi = si = 0
    for vn in vol_names:
        vnode = {"kind": "dir", "children": []}
        vol = {"name": vn, "perfs": []}
        for pn in perf_names:
            vol["perfs"].append(pi)
            model["performances"][pi] = {"name": pn, "patches": [pi]}
            model["patches"][pi] = {"name": f"PATCH{pi}", "partials": [pi]}
            pnode = {"kind": "dir", "children": [{"kind": "leaf", "marker": None}]}   # the program
            sel = []
            for sn in smp_names:
                model["samples"][si] = {"name": sn, "chain": [2 + si], "points": [0, 0, 11, 1000 + si, 11], "mode": 2, "seq": si + 1}
                sel.append(si)
                pnode["children"].append({"kind": "leaf", "marker": f"address: {1000 + si}"})
                si += 1
            model["partials"][pi] = {"name": f"PART{pi}", "samples": sel}
            vnode["children"].append(pnode)
            pi += 1
        model["volumes"].append(vol)
        tree_["children"].append(vnode)
    return R.build_roland(model)[0], tree_


def cdda_files(d, titles):
    tracks = [{"number": i + 1, "title": t, "indices": [(1, sum(range(2, i + 2)))]} for i, t in enumerate(titles)]
    pos_end = sum(range(2, len(titles) + 2))
    with open(os.path.join(d, "disc.bin"), "wb") as f:
        f.write(Q.bin_bytes(Q.SECTOR * pos_end))
    path = os.path.join(d, "disc.cue")
    with open(path, "wb") as f:
        f.write(Q.cue_text("disc.bin", tracks).encode("latin-1"))
    tree_ = {"kind": "dir", "children": [{"kind": "leaf", "marker": f"num_audio_samples: {588 * (i + 2)}"} for i in range(len(titles))]}
    return path, tree_


# ----------------------------------------------------------------------------- reading ls output
def parse_table(out):
    """-> list of printed names (first column), or None if `out` is not a table"""
    if out.strip() == "(*empty*)":
        return []
    lines = out.split("\n")
    if len(lines) < 2 or not lines[0].startswith("Item") or not set(lines[1]) <= {"-"} or not lines[1]:
        return None
    w = lines[0].find("Type")
    if w < 1:
        return None
    names = []
    total = len(lines[1])       # the divider is as wide as the table
    types = {l[w:].rstrip() for l in lines[2:] if l and len(l) <= total} | {"CDDA Track"}
    for l in lines[2:]:
        if l == "":
            continue
        if len(l) <= total:
            names.append(l[:w - 1].rstrip())
            continue
        # a cell wider than its column (the column width is capped at 255): the name runs on, the type follows one blank later
        body = l.rstrip()
        t = next((t for t in sorted(types, key=len, reverse=True) if t and body.endswith(" " + t)), None)
        names.append(body[:len(body) - len(t) - 1] if t else body)
    return names


def variants(tokens, akai):
    """(path string, strict?) for a node addressed by printed-name tokens"""
    out = []
    for sep in SEPS:
        for blanks in (False, True):
            for trail in (False, True):
                toks = [(" " + t + "  ") if blanks else t for t in tokens]
                p = sep.join(toks) + (sep if trail and tokens else "")
                out.append((p, True))
        # blanks (and a tab) around the WHOLE path, i.e. also behind the trailing separator
        if tokens:
            out.append(("  " + sep.join(tokens) + sep + " ", True))
            out.append((" " + sep.join(tokens) + sep + " \t ", True))
            out.append(("\t" + sep.join(tokens) + "  ", True))
    if akai and tokens:
        out.append(("/".join(t.lower() for t in tokens), False))
        if tokens[0].endswith(":"):
            out.append(("/".join([tokens[0][:-1]] + tokens[1:]), False))
            out.append(("/".join([tokens[0][:-1].lower() + " "] + tokens[1:]), False))
    return out


class Explorer:
    def __init__(self, src, akai, rep, case):
        self.src, self.akai, self.rep, self.case = src, akai, rep, case
        self.img = None
        self.nodes = []     # (tokens, base output)
        self.ok = True
        self.names_tree = {}

    def fresh(self):
        self.img = tree.open_image(self.src)

    def ls(self, path):
        return guarded(lambda: tree.ls(self.img, path), 20.0)

    def fail(self, klass, detail):
        self.ok = False
        self.rep.case(self.case, ok=False, klass=klass, nontrivial=True, detail=detail, sig=f"{self.case['fmt']}:{klass}")

    def explore(self, tokens, node, depth=0):
        path = "/".join(tokens)
        st, out = self.ls(path)
        if st != "ok":
            return self.fail("good-path-" + ("raised:" + exc_sig(out) if st == "exc" else "hang"), {"path": path, "observed": repr(out)[:200]})
        if "was not found" in out and tokens:
            return self.fail("shown-item-not-found", {"path": path, "observed": out[:200]})
        self.nodes.append((tokens, out))
        if node["kind"] == "dir":
            names = parse_table(out)
            if names is None:
                return self.fail("directory-not-listed", {"path": path, "observed": out[:200]})
            if len(names) != len(node["children"]):
                return self.fail("listing-count", {"path": path, "expected": len(node["children"]), "observed": names})
            if len(set(names)) != len(names):
                return self.fail("sibling-names-not-distinct", {"path": path, "names": names})
            self.names_tree[tuple(tokens)] = names
            for nm, child in zip(names, node["children"]):
                if nm.strip() == "":
                    continue
                self.explore(tokens + [nm], child, depth + 1)
                if not self.ok:
                    return
        else:
            first = out.split("\n", 1)[0]
            # (the heading of an item's own page abbreviates long names: its first 40 characters are compared; which item it
            # is follows from the position-coded marker below)
            if not first.startswith(tokens[-1].strip()[:40]) and not first.lstrip().startswith(tokens[-1].strip()[:40]):
                return self.fail("wrong-item-header", {"path": path, "observed": first[:100]})
            if node["marker"] and node["marker"] not in out:
                return self.fail("wrong-item", {"path": path, "expected_marker": node["marker"], "observed": out[:300]})

    def check_variants(self):
        n = 0
        for tokens, base in self.nodes:
            for p, strict in variants(tokens, self.akai):
                st, out = self.ls(p)
                n += 1
                if st != "ok":
                    return self.fail("variant-" + ("raised:" + exc_sig(out) if st == "exc" else "hang"), {"path": p, "observed": repr(out)[:200]})
                if out != base:
                    if not strict and "was not found" in out:
                        continue
                    return self.fail("variant-differs" if strict else "loose-variant-wrong-item",
                                     {"path": p, "canonical": "/".join(tokens), "expected": base[:200], "observed": out[:200]})
        return n

    # ---- other paths
    def resolves(self, path, loose):
        toks = re.split(r"\\{1,2}|/", path.strip())
        if toks and toks[-1] == "":
            toks = toks[:-1]
        cur = ()
        for i, t in enumerate(toks):
            t = t.strip()
            names = self.names_tree.get(cur)
            if names is None:
                return False
            cand = [n for n in names if n.strip() != ""]
            if loose and self.akai:
                tt = t.upper().strip()
                tt = tt[:-1] if tt.endswith(":") else tt
                hit = [n for n in cand if (n.upper().strip()[:-1] if n.upper().strip().endswith(":") else n.upper().strip()) == tt]
            else:
                hit = [n for n in cand if n.strip() == t]
            if not hit:
                return False
            cur = cur + (hit[0],)
        return True

    def blankish(self, path):
        """paths that could denote an item with a BLANK printed name (such items carry no requirement): walking the
        printed-name tree, a blank token meets a level that really has a blank-named child"""
        toks = re.split(r"\\{1,2}|/", path.strip())

        def norm(t):
            t = t.strip()
            if self.akai:
                t = t.upper()
                if t.endswith(":"):
                    t = t[:-1].strip()
            return t
        if len(toks) > 1 and toks[-1] == "":
            toks = toks[:-1]
        cur = ()
        for t in toks:
            names = self.names_tree.get(cur)
            if names is None:
                return False
            if norm(t) == "":
                return any(norm(n) == "" for n in names)
            hit = [n for n in names if norm(n) == norm(t)]
            if not hit:
                return False
            cur = cur + (hit[0],)
        return False

    def check_bad_paths(self, maxlen, small_pool=False):
        real = []
        for k, names in self.names_tree.items():
            for nm in names:
                if nm.strip():
                    real.append((len(k), nm))
        pool = []
        seen = set()
        for lvl, nm in real:
            for cand in (nm, nm[:-1] + ("X" if nm[-1:] != "X" else "Y"), nm + "x", nm[1:]):
                if cand not in seen:
                    seen.add(cand)
                    pool.append(cand)
        pool = pool[:10] + ["", " ", "..", ":", "\xe9", ".", "A:", "a"]
        if small_pool:
            pool = pool[:3] + ["", " ", "..", ":", "A:"]
        n = 0
        self.fresh()
        for k in range(1, maxlen + 1):
            for toks in itertools.product(pool, repeat=k):
                for sep in ("/", "\\"):
                    if k == 1 and sep == "\\":
                        continue
                    p = sep.join(toks)
                    if self.resolves(p, False):
                        continue
                    st, out = self.ls(p)
                    n += 1
                    if st != "ok":
                        self.fail("bad-path-" + ("raised:" + exc_sig(out) if st == "exc" else "hang"), {"path": p, "observed": repr(out)[:200]})
                        return n
                    if "was not found" not in out:
                        if self.resolves(p, True) or self.blankish(p):
                            continue
                        self.fail("bad-path-accepted", {"path": p, "observed": out[:200]})
                        return n
        return n


def _check_extensions(self):
    """every good path continued by one more token that names nothing there (below a leaf: anything; below a directory:
    a name it does not list) must say so -- at every depth, also below items that are not directories"""
    n = 0
    for tokens, base in self.nodes:
        if not tokens:
            continue
        for extra in ("x", tokens[-1].strip() + "q", "..", "0"):
            for sep in ("/", "\\"):
                p = sep.join(list(tokens) + [extra])
                if self.resolves(p, False) or self.resolves(p, True):
                    continue
                st, out = self.ls(p)
                n += 1
                if st != "ok":
                    self.fail("bad-path-" + ("raised:" + exc_sig(out) if st == "exc" else "hang"), {"path": p, "observed": repr(out)[:200]})
                    return n
                if "was not found" not in out:
                    self.fail("bad-path-accepted", {"path": p, "observed": out[:200]})
                    return n
    # AKAI: a good path with ONE token followed by two or three colons (only the single partition colon is a spelling of
    # a listed name; a colon cannot be part of an AKAI name)
    if self.akai:
        for tokens, base in self.nodes:
            for k in range(len(tokens)):
                for colons in ("::", ":::"):
                    t = list(tokens)
                    t[k] = t[k].rstrip().rstrip(":") + colons
                    for p in ("/".join(t), "\\".join(t) + "/"):
                        st, out = self.ls(p)
                        n += 1
                        if st != "ok":
                            self.fail("bad-path-" + ("raised:" + exc_sig(out) if st == "exc" else "hang"), {"path": p, "observed": repr(out)[:200]})
                            return n
                        if "was not found" not in out:
                            self.fail("bad-path-accepted", {"path": p, "observed": out[:200]})
                            return n
    # a good path with ONE separator doubled by a different or equal character (an empty component): '//', '/\', '\/'
    # -- the doubled backslash is the only two-character separator
    for tokens, base in self.nodes:
        if len(tokens) < 1:
            continue
        for k in range(1, len(tokens) + 1):
            for dbl in ("//", "/\\", "\\/"):
                head, tail = "/".join(tokens[:k]), "/".join(tokens[k:])
                p = head + dbl + tail
                if self.blankish(p) or self.blankish(head + "//" + tail):
                    continue
                st, out = self.ls(p)
                n += 1
                if st != "ok":
                    self.fail("bad-path-" + ("raised:" + exc_sig(out) if st == "exc" else "hang"), {"path": p, "observed": repr(out)[:200]})
                    return n
                if "was not found" not in out:
                    self.fail("bad-path-accepted", {"path": p, "observed": out[:200]})
                    return n
    return n


Explorer.check_extensions = _check_extensions


def run_case(case, rep, quick):
    fmt = case["fmt"]
    with scratch_dir("c10") as d:
        if fmt == "akai":
            src, lt = akai_tree(case["vols"], case["files"])
        elif fmt == "roland":
            src, lt = roland_tree(case["vols"], case["perfs"], case["smps"])
        else:
            src, lt = cdda_files(d, case["titles"])
        ex = Explorer(src, fmt == "akai", rep, case)
        st, val = guarded(ex.fresh, 30.0)
        if st != "ok":
            ex.fail("open-" + ("raised:" + exc_sig(val) if st == "exc" else "hang"), {"observed": repr(val)[:200]})
            return
        ex.explore([], lt)
        nv = nb = 0
        if ex.ok:
            nv = ex.check_variants()
        if ex.ok:
            nb = ex.check_bad_paths(2, small_pool=(quick and fmt != "cdda"))
        if ex.ok:
            nb += ex.check_extensions() or 0
        if ex.ok:
            deep = sum(1 for t, _ in ex.nodes if len(t) >= 2)
            rep.case(case, klass=f"ok:{len(ex.nodes)}nodes", nontrivial=deep > 0 or len(ex.nodes) > 1)
            rep.extra["good_paths"] = rep.extra.get("good_paths", 0) + (nv or 0)
            rep.extra["bad_paths"] = rep.extra.get("bad_paths", 0) + (nb or 0)


class Check(CheckBase):
    id = "C10"
    level = "exploration"
    title = "Every item `ls` shows can be addressed by the names shown; other paths say so"
    rule = ("trees whose names come from near-collision / hostile alphabets at every level (AKAI: 2 partitions x volume-name "
            "pairs x file-name pairs, and volumes holding a sample and a PROGRAM of the same name, or files of kinds that are not listed (DRUM, QL, EFFECT); Roland: volume/performance/sample name pairs; CDDA: title pairs and triples, titles of 19..60 characters in every order of widths, titles of 255..302 characters (wider than the widest column), single-entry directories); for every "
            "node with a non-blank printed name: path of printed names x separator {/,\\,\\\\} x blanks {none, around every "
            "token, around the whole path incl. behind a trailing separator} x trailing separator {no,yes} must print what the canonical path prints, the right item (position-coded "
            "marker per leaf) and sibling names pairwise distinct; AKAI lower-case / colon-less forms may resolve to the right "
            "item or be rejected; other paths: all token sequences of length 1 (quick) / <=2 (thorough) over {real names, names "
            "with one character changed/added/removed, '', ' ', '..', ':', non-ASCII, '.', 'A:', 'a'} with each separator must "
            "print 'was not found' and raise nothing; every good path (any depth, also items that are not directories) continued by "
            "one more token that names nothing there likewise, (AKAI) every good path with one token followed by two or three colons, and every good path with one separator doubled ('//', '/\\', '\\/': an "
            "empty component). non-trivial = trees with nodes at depth >= 2")
    assumptions = ["items with a blank printed name are not required to be addressable",
                   "paths that only differ from a good path by AKAI case / partition colon may resolve or be rejected"]

    def shards(self):
        cases = []
        af = AKAI_FILE if not self.quick else AKAI_FILE[::2] + ["A L", "A R"]
        ad = AKAI_DIR if not self.quick else AKAI_DIR[::2]
        for files in itertools.product(af, repeat=2):
            cases.append({"fmt": "akai", "vols": ["VOL", "VOL B"], "files": list(files)})
        for vols in itertools.product(ad, repeat=2):
            cases.append({"fmt": "akai", "vols": list(vols), "files": ["SMP", "SMP.L"]})
        cases.append({"fmt": "akai", "vols": ["A", "A", "A."], "files": ["A L", "A", "A R", "A"]})
        # a sample and a program of one volume with the same name (two kinds of items share the volume's name space)
        for files in (["KICK", "prog:KICK"], ["prog:KICK", "KICK"], ["A", "prog:A", "A"], ["prog:A", "prog:A", "A."],
                      ["prog:A L", "A L", "A R"], ["prog:P", "Q"],
                      # ... and files of the kinds the tool does not list (drum settings, cue lists, effects) among them
                      ["KICK", "drum:KIT"], ["drum:KICK", "KICK"], ["drum:D", "ql:Q", "fx:E", "A", "prog:A"], ["drum:ONLY"]):
            cases.append({"fmt": "akai", "vols": ["VOL", "VOL B"], "files": files})
        # names wider than the listing's default column (20 characters), in every order of widths: the printed table is the
        # only thing a user can read the names from
        # titles wider than the widest column a listing grows to (255): printed in full, addressable in full -- also two that
        # agree in their first 255 / 300 characters
        cases.append({"fmt": "cdda", "titles": ["w" * 256, "w" * 255, "x" * 300 + "a", "x" * 300 + "b", "short"]})
        cases.append({"fmt": "cdda", "titles": ["y" * 255 + " z", "y" * 255 + " zz"]})

        def wide(n, tag):
            return (tag + "x" * 60)[:n - 2] + "%02d" % n
        for widths in ([30, 25], [25, 30], [21, 40, 22], [40, 21], [20, 21], [21, 20], [19, 45, 21, 33], [33, 21, 45, 19], [60, 22]):
            cases.append({"fmt": "cdda", "titles": [wide(n, "T%d " % i) for i, n in enumerate(widths)]})
        # directories with exactly ONE entry, named by every hostile name
        for h in [x for x in HOSTILE if x not in ("/abs", "\xe9", "")]:
            cases.append({"fmt": "cdda", "titles": [h]})
            if len(h) <= 16:
                cases.append({"fmt": "roland", "vols": [h], "perfs": [h], "smps": [h]})
        for f in AKAI_FILE:
            if f.strip():
                cases.append({"fmt": "akai", "vols": ["A B"], "files": [f]})
        for dname in AKAI_DIR:
            if dname.strip():
                cases.append({"fmt": "akai", "vols": [dname], "files": ["SMP"]})
        # names that differ only in the number of inner blanks (both tiers)
        cases.append({"fmt": "akai", "vols": ["A B", "A  B", "A   B"], "files": ["X Y", "X  Y"]})
        cases.append({"fmt": "roland", "vols": ["V W", "V  W"], "perfs": ["P Q", "P  Q"], "smps": ["s t", "s  t"]})
        cases.append({"fmt": "cdda", "titles": ["a b", "a  b", "a\tb"]})
        host = [h for h in HOSTILE if h != "/abs"] + ["/abs"]
        cue_host = [h for h in host if h != "\xe9"]
        for t in itertools.product(cue_host, repeat=2):
            cases.append({"fmt": "cdda", "titles": list(t)})
        if not self.quick:
            for t in itertools.product(cue_host[:12], repeat=3):
                cases.append({"fmt": "cdda", "titles": list(t)})
        rol = []
        rhost = [h for h in host if h != "\xe9"]    # an undecodable name makes the tool drop the entry: nothing to address
        rh = rhost if not self.quick else rhost[::2] + ["a L", "a R"]
        for t in itertools.product(rh, repeat=2):
            rol.append({"fmt": "roland", "vols": ["VOL"], "perfs": ["PERF"], "smps": list(t)})
            rol.append({"fmt": "roland", "vols": ["VOL"], "perfs": list(t), "smps": ["SMP"]})
            rol.append({"fmt": "roland", "vols": list(t), "perfs": ["PERF"], "smps": ["SMP"]})
        return self.chunk(cases, 30) + self.chunk(rol, 6)

    def run_shard(self, shard, rep: Report):
        cases = [shard["replay_case"]] if "replay_case" in shard else shard["cases"]
        for case in cases:
            run_case(case, rep, self.quick)
