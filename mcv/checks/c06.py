"""C06 -- output paths are unique, file-system safe and confined to the destination."""
import io
import itertools
import os

from mcv.engine import core, tree
from mcv.engine.core import CheckBase, Report, exc_sig, guarded, scratch_dir, captured_stdout
from mcv.gen import akai as A
from mcv.gen import roland as R
from mcv.gen import cue as Q
from mcv.ref import names as N

AKAI_FILE = ["A", "A L", "A R", "A-L", "A -R", "A.", "A..", "-A", "A+", ".", "..", "+", "#", "A+B", "A B", "A-", "0",
             "", "A.L", "-L", "-R", "A.WAV", "A  B", "L", "R", "+L"]   # (bare channel letters: a pair whose stem is empty)
AKAI_DIR = ["A", "A.", "A..", "-A", "A+", "A-", ".A", "#", "A+B", "A B", "0", "", ".", "..", "A  B"]
HOSTILE = ["a", "a/b", "a\\b", "..", "../x", "/abs", ".", "", " ", "a.", "a .", "a..", "-a", '"q"', "a'b", "\x01a",
           "a:b", "a*?", "A", "a (2)", "\xe9", "a L", "a R", " -L", " -R", "/", "<\\>", "?/?", "a.wav", "A.WAV",
           # white-space characters other than the blank INSIDE a name (tab, vertical tab, FS, US)
           "a\tb", "a\x0bb", "a\x1cb", "a\x1fb"]
ABS = "@ABS@"      # replaced by an absolute path that lies in the watched scratch area


def akai_files_image(names):
    files = [{"name": nm, "n": 12, "chain": [4 + i], "seq": i + 1} for i, nm in enumerate(names)]
    spec = {"parts": [{"vols": [{"name": "VOL", "dir": [3], "files": files}]}]}
    return A.build_akai(A.model_from_spec(spec))[0], len(names)


def akai_dirs_image(names):
    vols = []
    for i, nm in enumerate(names):
        vols.append({"name": nm, "dir": [3 + 2 * i], "files": [{"name": "SMP", "n": 12, "chain": [4 + 2 * i], "seq": i + 1}]})
    spec = {"parts": [{"vols": vols}, {"vols": [{"name": names[0], "dir": [3], "files": [{"name": "SMP", "n": 12, "chain": [4], "seq": 9}]}]}]}
    return A.build_akai(A.model_from_spec(spec))[0], len(names) + 1


def akai_crosslevel_image(name, order):
    """ONE raw name used for a sample and for a volume (a name is cleaned differently for a file and for a directory):
    file_first -- partition A holds the sample, partition B the volume; dir_first -- the other way round; nested -- the
    volume holds a sample of its own name; siblings -- one partition holds the volume and, in another volume, the sample"""
    smp = lambda nm, seq, sec: {"name": nm, "n": 12, "chain": [sec], "seq": seq}
    vfile = {"name": "V", "dir": [3], "files": [smp(name, 1, 4), smp("KICK", 2, 5)]}
    vdir = {"name": name, "dir": [3], "files": [smp("SNARE", 3, 4)]}
    if order == "file_first":
        parts = [{"vols": [vfile]}, {"vols": [vdir]}]
    elif order == "dir_first":
        parts = [{"vols": [vdir]}, {"vols": [vfile]}]
    elif order == "nested":
        parts = [{"vols": [{"name": name, "dir": [3], "files": [smp(name, 1, 4), smp("SNARE", 2, 5)]}]}]
    else:
        parts = [{"vols": [dict(vfile, dir=[3]), dict(vdir, dir=[6], files=[smp("SNARE", 3, 7)])]}]
    return A.build_akai(A.model_from_spec({"parts": parts}))[0], 3


def roland_image(level, names):
    k = len(names)
    if level == "sample":
        samples = {i: {"name": nm, "chain": [2 + i], "points": [0, 0, 11, 0, 11], "mode": 2, "seq": i + 1} for i, nm in enumerate(names)}
        model = {"volumes": [{"name": "VOL", "perfs": [0]}], "performances": {0: {"name": "PERF", "patches": [0]}},
                 "patches": {0: {"name": "PATCH", "partials": [0]}}, "partials": {0: {"name": "PART", "samples": list(range(k))}},
                 "samples": samples}
    elif level == "performance":
        model = {"volumes": [{"name": "VOL", "perfs": list(range(k))}], "performances": {}, "patches": {}, "partials": {}, "samples": {}}
        for i, nm in enumerate(names):
            model["performances"][i] = {"name": nm, "patches": [i]}
            model["patches"][i] = {"name": f"PATCH{i}", "partials": [i]}
            model["partials"][i] = {"name": f"PART{i}", "samples": [i]}
            model["samples"][i] = {"name": "SMP", "chain": [2 + i], "points": [0, 0, 11, 0, 11], "mode": 2, "seq": i + 1}
    else:
        model = {"volumes": [], "performances": {}, "patches": {}, "partials": {}, "samples": {}}
        for i, nm in enumerate(names):
            model["volumes"].append({"name": nm, "perfs": [i]})
            model["performances"][i] = {"name": "PERF", "patches": [i]}
            model["patches"][i] = {"name": f"PATCH{i}", "partials": [i]}
            model["partials"][i] = {"name": f"PART{i}", "samples": [i]}
            model["samples"][i] = {"name": "SMP", "chain": [2 + i], "points": [0, 0, 11, 0, 11], "mode": 2, "seq": i + 1}
    model["pad"] = "\0"
    return R.build_roland(model)[0], k


def roland_orphan_image(level, names, with_volume):
    """the same names below the pseudo volume that collects performances no volume references ('_Orphan_perf' next to
    real volumes, 'All Performances' on a disk without volumes)"""
    lvl = level.split("-")[0]
    img_model = None
    k = len(names)
    if lvl == "sample":
        samples = {i: {"name": nm, "chain": [2 + i], "points": [0, 0, 11, 0, 11], "mode": 2, "seq": i + 1} for i, nm in enumerate(names)}
        img_model = {"volumes": [], "performances": {0: {"name": "PERF", "patches": [0]}},
                     "patches": {0: {"name": "PATCH", "partials": [0]}}, "partials": {0: {"name": "PART", "samples": list(range(k))}},
                     "samples": samples}
    else:
        img_model = {"volumes": [], "performances": {}, "patches": {}, "partials": {}, "samples": {}}
        for i, nm in enumerate(names):
            img_model["performances"][i] = {"name": nm, "patches": [i]}
            img_model["patches"][i] = {"name": f"PATCH{i}", "partials": [i]}
            img_model["partials"][i] = {"name": f"PART{i}", "samples": [i]}
            img_model["samples"][i] = {"name": "SMP", "chain": [2 + i], "points": [0, 0, 11, 0, 11], "mode": 2, "seq": i + 1}
    if with_volume:
        # a real volume with its own performance, so that the others are orphans
        n = max(img_model["performances"]) + 1
        img_model["volumes"] = [{"name": "REAL", "perfs": [n]}]
        img_model["performances"][n] = {"name": "OWNED", "patches": [n]}
        img_model["patches"][n] = {"name": "PATCHX", "partials": [n]}
        img_model["partials"][n] = {"name": "PARTX", "samples": [max(img_model["samples"]) + 1]}
        img_model["samples"][max(img_model["samples"]) + 1] = {"name": "OWN", "chain": [40], "points": [0, 0, 11, 0, 11], "mode": 2, "seq": 9}
    img_model["pad"] = "\0"
    return R.build_roland(img_model)[0], k


def snapshot(root, skip):
    out = set()
    for dp, dn, fn in os.walk(root):
        if os.path.abspath(dp).startswith(skip):
            dn[:] = []
            continue
        for x in dn + fn:
            full = os.path.join(dp, x)
            if not os.path.abspath(full).startswith(skip):
                out.add(full)
    return out


def judge(dest, scratch_root, before_outside, out, run_status, skip=None):
    st, val = run_status
    if st == "hang":
        return False, "hang", {"observed": "non-termination"}
    after_outside = snapshot(scratch_root, skip or os.path.abspath(dest))
    escaped = sorted(after_outside - before_outside)
    if escaped:
        return False, "escaped-destination", {"created_outside": [os.path.relpath(p, scratch_root) for p in escaped[:4]]}
    if st == "exc":
        return False, "raised:" + exc_sig(val), {"observed": repr(val)[:300]}
    files = tree.walk_files(dest) if os.path.isdir(dest) else {}
    reported = [l[len("Exported "):] for l in out.splitlines() if l.startswith("Exported ")]
    if len(set(reported)) != len(reported):
        dup = sorted({p for p in reported if reported.count(p) > 1})
        return False, "same-path-twice", {"paths": dup[:4], "reported": reported[:8]}
    if len(files) != len(reported):
        return False, "files-vs-lines", {"files": sorted(files)[:8], "reported": reported[:8]}
    for p in list(files) + reported:
        rp = os.path.realpath(os.path.join(dest, p))
        if not rp.startswith(os.path.realpath(dest) + os.sep):
            return False, "outside-destination", {"path": p}
        for comp in p.split("/"):
            errs = N.component_errors(comp)
            if errs:
                return False, "unsafe-component", {"path": p, "component": comp, "errors": errs}
    return True, f"ok:{len(files)}files", None


def run_case(case):
    from smpl_extract.actions import export_samples_to_wav
    with scratch_dir("c06") as root:
        work = os.path.join(root, "w", "deep")
        os.makedirs(work)
        dest = os.path.join(work, "dest")
        absname = os.path.join(root, "w", "abs")
        names = [n.replace(ABS, absname) for n in case["names"]]
        kind = case["kind"]
        src = None
        if kind == "akai_files":
            src = io.BytesIO(akai_files_image(names)[0])
        elif kind == "akai_dirs":
            src = io.BytesIO(akai_dirs_image(names)[0])
        elif kind == "akai_crosslevel":
            src = io.BytesIO(akai_crosslevel_image(names[0], case["order"])[0])
        elif kind == "akai_volalias":
            # two (three) volume entries naming ONE directory: the same samples under each volume name
            files = [{"name": "KICK", "n": 12, "chain": [4], "seq": 1}, {"name": "SNARE", "n": 14, "chain": [5], "seq": 2}]
            vols = [{"name": names[0], "dir": [3], "files": files}] + \
                   [{"name": nm, "dir": [3], "files": files, "alias": True} for nm in names[1:]]
            src = io.BytesIO(A.build_akai(A.model_from_spec({"parts": [{"vols": vols}]}))[0])
        elif kind == "akai_parts":
            # many partitions: the letters the tool gives them run past 'Z' into '[', '\\', ']', '^', '_', '`', 'a' ...
            parts = [{"vols": [{"name": nm, "dir": [3], "files": [{"name": "SMP", "n": 12, "chain": [4], "seq": 1 + i}]}]}
                     for i, nm in enumerate(names)]
            src = io.BytesIO(A.build_akai(A.model_from_spec({"parts": parts}))[0])
        elif kind.startswith("roland_orphan"):
            names = [n.replace(absname, "/dev/shm/zq%x" % (os.getpid() % 16)) for n in names]
            src = io.BytesIO(roland_orphan_image(kind.split("_")[2], names, kind.split("_")[1] == "orphan")[0])
        elif kind.startswith("roland_"):
            names = [n.replace(absname, "/dev/shm/zq%x" % (os.getpid() % 16)) for n in names]
            src = io.BytesIO(roland_image(kind.split("_")[1], names)[0])
        else:
            # "positions": the start sector of every track + the length of the bin in bytes (tracks without a single frame:
            # two tracks starting at one position, a last track starting at / less than a sector before the end of the bin)
            pos = case.get("positions") or [i * 3 for i in range(len(names))]
            tracks = [{"number": i + 1, "title": t, "indices": [(1, pos[i])]} for i, t in enumerate(names)]
            with open(os.path.join(work, "disc.bin"), "wb") as f:
                f.write(Q.bin_bytes(case.get("binlen", Q.SECTOR * (3 * len(names) + 1))))
            src = os.path.join(work, "disc.cue")
            with open(src, "wb") as f:
                f.write(Q.cue_text("disc.bin", tracks).encode("latin-1"))
        extra_watch = "/dev/shm/zq%x" % (os.getpid() % 16)
        for p in (extra_watch, extra_watch + ".wav"):
            if os.path.lexists(p):
                import shutil
                shutil.rmtree(p, ignore_errors=True) if os.path.isdir(p) else os.remove(p)
        before = snapshot(root, os.path.abspath(dest))
        cwd = os.getcwd()
        os.chdir(work)
        # how the destination is spelled on the command line (the process works in <scratch>/w/deep)
        dest_arg = {"abs": dest, "rel": "dest", "dot": "./dest/", "dotdot": "dest/../dest", "nested": os.path.join(dest, "a", "b")}[case.get("dest", "abs")]
        skip = os.path.abspath(dest)
        if case.get("dest") == "nested":
            dest = os.path.join(dest, "a", "b")
        try:
            with captured_stdout() as buf:
                def go():
                    img = tree.open_image(src.getvalue()) if isinstance(src, io.BytesIO) else src
                    if case.get("listed"):
                        # the same image object has been listed (root and every first-level item) before it is exported
                        from mcv.checks.c10 import parse_table
                        if isinstance(img, str):
                            img = tree.open_image(img)
                        for nm in parse_table(tree.ls(img, "")) or []:
                            if nm.strip():
                                try:
                                    tree.ls(img, nm)
                                except Exception:   # noqa -- what ls answers is C10's business
                                    pass
                    export_samples_to_wav(img, dest_arg)
                status = guarded(go, 30.0)
            out = buf.getvalue()
        finally:
            os.chdir(cwd)
        ok, klass, detail = judge(dest, root, before, out, status, skip)
        for p in (extra_watch, extra_watch + ".wav"):
            if os.path.lexists(p):
                import shutil
                shutil.rmtree(p, ignore_errors=True) if os.path.isdir(p) else os.remove(p)
                if ok:
                    ok, klass, detail = False, "escaped-destination", {"created_outside": [p]}
        return ok, klass, detail


def hostile_nontrivial(names):
    keys = [N.wordkey(n) for n in names]
    return len(set(keys)) < len(keys) or any(("/" in n or "\\" in n or ".." in n) for n in names)


class Check(CheckBase):
    id = "C06"
    level = "exploration"
    title = "Output paths are unique, file-system safe and confined to the destination"
    rule = ("all ordered pairs (quick) / triples (thorough) of names over: 24 AKAI file names (incl. bare channel letters 'L', 'R', '+L'; all triples over {L, R, +L, +R, ' L', 'A L'} in both tiers) and 14 AKAI volume names "
            "(punctuation, blanks, dots, names equal after sanitising, L/R forms, pair stems ending in a dot); 29 hostile names (separators, white-space characters other than the blank inside a name, "
            "'..', absolute path into the watched area, quotes, control and non-ASCII characters, '(2)' forms, empty stems) as "
            "Roland sample / performance / volume names (also below the pseudo volume that collects orphan performances, with and "
            "without real volumes on the disk) and as cue TITLEs; export into <scratch>/w/deep/dest with the "
            "parents watched; names differing only in the length of a blank run (8 cue titles k<=3, 5 AKAI names k=3); CDDA tracks without a single frame (6 title sets x every start-position pattern over 3 sectors with repeats x bins ending 0 / 1 / 3 / 4 / 2351 / 2352 bytes behind the last start: every track is one reported file); one raw name used for a sample and for a volume of one image (every AKAI name x file first / directory first / nested / side by side, plain and listed first); 201-entry AKAI volumes with a pair / a duplicate whose stem is owned by a sibling 2..200 places away; "
            "AKAI volumes whose entries share one directory; AKAI images of 26 / 27 / 30 / 34 partitions (generated partition names beyond 'Z'); singles, doubled names and neighbouring (thorough: all) pairs again on an image object whose root "
            "and first-level items were listed before the export. Oracle: nothing created outside dest; Exported lines pairwise distinct and as many as files; "
            "every component non-empty, [\\w -.#()] only, begins with \\w, does not end in space or dot. non-trivial = two "
            "names equal after removing everything but \\w, or a separator / dot-dot in a name")
    assumptions = ["file components include the .wav extension (the on-disk name)"]

    def shards(self):
        k = 2 if self.quick else 3
        cases = []

        def tuples(alpha, kmax):
            for kk in range(1, kmax + 1):
                for t in itertools.product(alpha, repeat=kk):
                    yield list(t)
        for t in tuples(AKAI_FILE, k):
            cases.append({"kind": "akai_files", "names": t})
        if self.quick:
            for t in itertools.product(["A", "A L", "A R", "A-L", "A-R", "-L", "-R"], repeat=3):
                cases.append({"kind": "akai_files", "names": list(t)})
        # names that ARE a channel letter (with and without a sanitised character / blank in front): stems of length 0
        for t in itertools.product(["L", "R", "+L", "+R", " L", "A L"], repeat=3):
            cases.append({"kind": "akai_files", "names": list(t)})
        # two L/R pairs with one stem need four names (both tiers)
        for t in itertools.product(["A", "A L", "A R", "A-L", "A-R"], repeat=4):
            cases.append({"kind": "akai_files", "names": list(t)})
        # pair stems that end in a dot / blank next to the plain stem (a name "tidied" after its uniqueness was established)
        dots = ["A", "A.", "A. L", "A. R", "A L", "A R", "A .L", "A .R"]
        for t in itertools.product(dots, repeat=3):
            cases.append({"kind": "akai_files", "names": list(t)})
        for t in itertools.product(["A", "A. L", "A. R", "A L", "A R"], repeat=4):
            cases.append({"kind": "akai_files", "names": list(t)})
        for t in tuples(AKAI_DIR, k):
            cases.append({"kind": "akai_dirs", "names": t})
        host = [h if h != "/abs" else ABS for h in HOSTILE]
        cue_host = [h for h in host if h != "\xe9"]
        for t in tuples(cue_host, k):
            cases.append({"kind": "cdda", "names": t})
        # very long titles that share a long prefix / have a dot or blank around position 200 (CDDA names are unbounded)
        longs = ["L" * 205 + "a", "L" * 205 + "b", "x" * 199 + ". y", "x" * 199 + " .z", "w" * 240, "w" * 241 + "q"]   # (+ '.wav' stays under NAME_MAX)
        for t in itertools.permutations(longs, 2):
            cases.append({"kind": "cdda", "names": list(t)})
        cases.append({"kind": "cdda", "names": longs})
        rol = []
        rhost = [h if h != ABS else ABS for h in host]
        for level in ("sample", "performance", "volume"):
            for t in tuples(rhost, 2):
                if any(len(x.replace(ABS, "/dev/shm/zq0")) > 16 for x in t):
                    continue
                rol.append({"kind": "roland_" + level, "names": t})
        if not self.quick:
            for t in itertools.product(rhost[:12], repeat=3):
                rol.append({"kind": "roland_sample", "names": list(t)})
        # below the pseudo volume of orphan performances (with and without real volumes on the disk)
        for kind in ("roland_orphan_sample", "roland_orphan_performance", "roland_orphanonly_sample", "roland_orphanonly_performance"):
            for t in tuples(rhost, 2 if not self.quick else 1):
                if any(len(x.replace(ABS, "/dev/shm/zq0")) > 16 for x in t):
                    continue
                rol.append({"kind": kind, "names": t})
                if len(t) == 1:
                    rol.append({"kind": kind, "names": t + t})
        # destination spellings (relative, ./x/, with .., not yet existing nested directory)
        for dest in ("rel", "dot", "nested"):
            for t in (["A", "A"], ["A L", "A R"], ["..", "A."]):
                cases.append({"kind": "akai_files", "names": t, "dest": dest})
            for t in (["../x", ABS], ["a/b", "a\\b"], ["a", "a"]):
                cases.append({"kind": "cdda", "names": t, "dest": dest})
            rol.append({"kind": "roland_sample", "names": ["../x", "a"], "dest": dest})
        # names that differ only in the LENGTH of a run of blanks (or in what a sanitised character leaves behind)
        runs = ["A B", "A  B", "A   B", "A/ B", "A / B", "A\\ B", "A B ", " A B"]
        for kk in (2, 3):
            for t in itertools.product(runs, repeat=kk):
                cases.append({"kind": "cdda", "names": list(t)})
        for t in itertools.product(["A B", "A  B", "A   B", "A + B", "A+ B"], repeat=3):
            cases.append({"kind": "akai_files", "names": list(t)})
        # CDDA tracks that hold no frame at all (every track is still one reported file): all start-position patterns with
        # repeated positions over 2..3 tracks x bins that end at / 0..3 bytes / just under a sector behind the last start
        for names in (["A", "B", "C"], ["A", "A", "A"], ["", "", ""], ["A", "B"], ["A", "A"], ["a/b", "a\\b", ".."]):
            n = len(names)
            for pos in itertools.combinations_with_replacement(range(3), n):
                if pos[0] != 0 and n == 3:
                    continue
                for tail in (0, 1, 3, 4, Q.SECTOR - 1, Q.SECTOR):
                    if len(set(pos)) == n and tail == Q.SECTOR:
                        continue            # every track holds frames: the plain cases above
                    cases.append({"kind": "cdda", "names": names, "positions": list(pos), "binlen": Q.SECTOR * pos[-1] + tail})
        # one raw name at file level and at directory level of one image (both orders, nested, side by side), also listed first
        for nm in sorted(set(AKAI_DIR) | set(AKAI_FILE)):
            for order in ("file_first", "dir_first", "nested", "siblings"):
                cases.append({"kind": "akai_crosslevel", "names": [nm], "order": order})
                cases.append({"kind": "akai_crosslevel", "names": [nm], "order": order, "listed": True})
        # large directories (the uniqueness of a name must hold over the WHOLE directory, however it is processed): 201
        # siblings, an L/R pair somewhere and a sample (or a second pair) that already owns the pair's stem somewhere else
        def big(n, places):
            names = ["F%03d" % k for k in range(n)]
            for pos, nm in places:
                names[pos] = nm
            return names
        for p in (2, 60, 63, 64, 65, 126, 127, 128, 129, 130, 199, 200):
            cases.append({"kind": "akai_files", "names": big(201, [(0, "PAD-L"), (1, "PAD-R"), (p, "PAD")])})
            cases.append({"kind": "akai_files", "names": big(201, [(p - 2, "PAD-L"), (p - 1, "PAD-R"), (0, "PAD")])})
            cases.append({"kind": "akai_files", "names": big(201, [(0, "PAD-L"), (1, "PAD-R"), (p - 1, "PAD L"), (p, "PAD R")])})
            cases.append({"kind": "akai_files", "names": big(201, [(0, "DUP"), (p, "DUP")])})
        # volume entries that share one directory (legal: the same start sector under two names)
        for names in (["VOL A", "VOL B"], ["VOL", "VOL"], ["A", "B", "A."]):
            cases.append({"kind": "akai_volalias", "names": names})
            cases.append({"kind": "akai_volalias", "names": names, "listed": True})
        # images of 27 .. 34 partitions (partition names are generated, not stored: letters from 'A' on)
        for n in (26, 27, 30, 34):
            cases.append({"kind": "akai_parts", "names": ["V%02d" % i for i in range(n)]})
            cases.append({"kind": "akai_parts", "names": ["V%02d" % i for i in range(n)], "listed": True})
        # the image object was listed before the export (names are made when items are first realised)
        for alpha, kind in ((AKAI_FILE, "akai_files"), (AKAI_DIR, "akai_dirs"), (cue_host, "cdda")):
            for x in alpha:
                cases.append({"kind": kind, "names": [x], "listed": True})
                cases.append({"kind": kind, "names": [x, x], "listed": True})
            for t in itertools.combinations(alpha, 2) if not self.quick else zip(alpha, alpha[1:] + alpha[:1]):
                cases.append({"kind": kind, "names": list(t), "listed": True})
        for level in ("sample", "performance", "volume"):
            for x in rhost:
                if len(x.replace(ABS, "/dev/shm/zq0")) <= 16:
                    rol.append({"kind": "roland_" + level, "names": [x, x], "listed": True})
        return self.chunk(cases, 80) + self.chunk(rol, 8)

    def run_shard(self, shard, rep: Report):
        cases = [shard["replay_case"]] if "replay_case" in shard else shard["cases"]
        for case in cases:
            ok, klass, detail = run_case(case)
            rep.case(case, ok=ok, klass=klass, nontrivial=hostile_nontrivial(case["names"]), detail=detail,
                     sig=f"{case['kind']}:{klass}")
