"""C12 -- PCM transcoding maps every source channel to the same-numbered output channel.

Complete product of stream configurations on make_transcoder over BytesIO, against an integer
de-interleave oracle.  The internal block size is set from outside through the default argument
of get_num_frames_possible; a big-endian host is emulated by rebinding the module's host-order
flag only (see Env for why that is faithful for value-agnostic pipelines; done only when the encodings
hand native-order dtypes to numpy, which is the coupling the library itself relies on).
"""
import io
import itertools

from mcv.engine import core
from mcv.engine.core import CheckBase, Report, guarded, exc_sig

FRAMES = [0, 1, 3, 4]
BLOCKS = [1, 8, 4096]
FRAMES_T = [0, 1, 2, 3, 4, 5]
BLOCKS_T = [1, 4, 8, 4096]


def sample_bytes(width, s, c, f, order):
    v = ((s * 3 + c) * 8 + f) % 127 + 1    # 1..127; distinct per (stream, channel, frame) for the short streams
    if width == 1:
        b = bytes([v])
    elif width == 2:
        b = bytes([v, 0x80 | v])           # big-endian byte string, byte-asymmetric
    else:
        b = bytes([v, 0x55 ^ v, 0x33, 0x80 | v])
    return b if order == "B" else b[::-1]


def source_bytes(width, s, cfg):
    ch, order, frames, trailing = cfg
    out = bytearray()
    for f in range(frames):
        for c in range(ch):
            out += sample_bytes(width, s, c, f, order)
    if trailing and ch * width > 1:
        nxt = b"".join(sample_bytes(width, s, c, frames, order) for c in range(ch))
        out += nxt[:ch * width - 1]      # all but one byte of a further frame
    return bytes(out)


def stream_cfgs(frames_set=None, equal_only=False):
    for ch in (1, 2, 3):
        for order in ("L", "B"):
            for frames in (frames_set or FRAMES):
                for trailing in (0, 1):
                    if equal_only and trailing:
                        continue
                    yield (ch, order, frames, trailing)


class Env:
    def __init__(self, block, host):
        self.block, self.host = block, host
        self.skipped = None

    def __enter__(self):
        from smpl_extract import transcoder as T
        from smpl_extract import data_streams as D
        self.T, self.D = T, D
        f = getattr(T, "get_num_frames_possible", None)
        self.saved_defaults = getattr(f, "__defaults__", None)
        if f is not None and self.saved_defaults and len(self.saved_defaults) == 1:
            f.__defaults__ = (self.block,)
        elif self.block != 4096:
            self.skipped = "block size cannot be set from outside (get_num_frames_possible default argument is gone)"
        self.saved_host = getattr(T, "system_byte_order", None)
        self.saved_dtype = D.StreamEncoding.__dict__.get("dtype")
        if self.host == "big":
            probe = D.StreamEncoding(D.Endianess.LITTLE, 2, 1).dtype
            if self.saved_host is None or not isinstance(self.saved_dtype, property) or probe.byteorder not in ("=", "|"):
                self.skipped = "big-endian host cannot be emulated (library does not use native-order dtypes + system_byte_order)"
            else:
                # Only the host flag is rebound; numpy keeps reading natively.  Every intermediate value is then the
                # byte-reversed image of the value a real big-endian host would hold; byte swaps and channel routing
                # commute with that reversal, and the final native tobytes() writes exactly the bytes a real
                # big-endian host would write.  (Valid because source and destination have the same width and
                # signedness in every case here, so no step of the pipeline looks at sample VALUES.)
                T.system_byte_order = D.Endianess.BIG
        return self

    def __exit__(self, *a):
        f = getattr(self.T, "get_num_frames_possible", None)
        if f is not None and self.saved_defaults is not None:
            f.__defaults__ = self.saved_defaults
        if self.saved_host is not None:
            self.T.system_byte_order = self.saved_host
        if self.saved_dtype is not None:
            self.D.StreamEncoding.dtype = self.saved_dtype


def run_case(env, width, cfgs):
    T, D = env.T, env.D
    datas = [source_bytes(width, s, cfg) for s, cfg in enumerate(cfgs)]

    def go():
        streams = [D.DataStream(stream=io.BytesIO(d), encoding=D.StreamEncoding(
            D.Endianess.BIG if cfg[1] == "B" else D.Endianess.LITTLE, width, cfg[0]))
            for d, cfg in zip(datas, cfgs)]
        total = sum(cfg[0] for cfg in cfgs)
        dest = D.StreamEncoding(D.Endianess.LITTLE, width, total)
        return b"".join(T.make_transcoder(streams, dest))
    st, out = guarded(go, 10.0)
    if st == "hang":
        return False, "hang", {"observed": "non-termination"}
    if st == "exc":
        return False, "raised:" + exc_sig(out), {"observed": repr(out)[:200]}
    total = sum(cfg[0] for cfg in cfgs)
    fs = total * width
    if len(out) % fs:
        return False, "partial-frame-in-output", {"len": len(out), "frame_size": fs}
    fout = len(out) // fs
    fmin = min(cfg[2] for cfg in cfgs)
    fmax = max(cfg[2] for cfg in cfgs)
    if not (fmin <= fout <= fmax):
        return False, "frame-count", {"observed": fout, "min": fmin, "max": fmax}
    col = 0
    for s, cfg in enumerate(cfgs):
        for c in range(cfg[0]):
            for f in range(fmin):
                o = (f * total + col) * width
                want = sample_bytes(width, s, c, f, "L")
                if out[o:o + width] != want:
                    return False, "channel-mismatch", {"out_channel": col, "frame": f, "expected": want.hex(),
                                                      "observed": out[o:o + width].hex()}
            col += 1
    return True, f"ok:{'eq' if fmin == fmax else 'uneq'}:{total}ch", None


class Check(CheckBase):
    id = "C12"
    level = "exploration"
    title = "PCM transcoding maps every source channel to the same-numbered output channel"
    rule = ("complete product: streams 1..3 x interleaved channels 1..3 x width {1,2,4} x byte order per stream x frames "
            "per stream {0,1,3,4} x trailing partial-frame bytes {0,1} x internal block target {1,8,4096} bytes, complete "
            "product in both tiers; thorough widens frames to {0..5} and block targets to {1,4,8,4096}; host order: the real "
            "(little-endian) one for everything, and an emulated big-endian host (host flag rebound; byte-exact for pipelines "
            "that never look at sample values, i.e. equal width and signedness as here) for all 1- and 2-stream products, the "
            "3-stream products with block target 8 (quick) / all (thorough) and the long streams. non-trivial = >=2 output channels, or mixed byte orders, or "
            "unequal lengths")
    assumptions = ["sample values are distinct per (stream, channel, frame) and byte-asymmetric",
                   "big-endian host = the library's host-order flag rebound on this little-endian machine; exact for "
                   "value-agnostic pipelines (all cases use one width and signedness); skipped with a note if the library "
                   "stops coupling native-order dtypes to that flag"]

    def shards(self):
        out = []
        fr = FRAMES if self.quick else FRAMES_T
        for width in (1, 2, 4):
            for block in (BLOCKS if self.quick else BLOCKS_T):
                for host in ("little", "big"):
                    out.append({"width": width, "block": block, "host": host, "k": 1, "first": None, "frames": fr})
                    for first in stream_cfgs(fr):
                        out.append({"width": width, "block": block, "host": host, "k": 2, "first": list(first), "frames": fr})
                        if host == "little" or block == 8 or not self.quick:
                            out.append({"width": width, "block": block, "host": host, "k": 3, "first": list(first), "frames": fr})
        # long streams against the real 4096-byte block: lengths around one and two blocks
        for width in (1, 2, 4):
            for host in ("little", "big"):
                out.append({"width": width, "block": 4096, "host": host, "k": 0, "long": True})
        return out

    def run_shard(self, shard, rep: Report):
        if shard.get("long"):
            width = shard["width"]
            per = 4096 // width
            lens = sorted({per - 1, per, per + 1, 2 * per, 2 * per + 1, per // 2, per // 2 + 1})
            host = shard.get("host", "little")
            with Env(4096, host) as env:
                if env.skipped:
                    rep.notes["skipped: " + env.skipped] += 1
                    return
                one = [(ch, o, f, t) for ch in (1, 2, 3) for o in ("L", "B") for f in lens for t in (0, 1)]
                gens = [(c,) for c in one] + [(a, b) for a in one[::3] for b in one[::5]]
                for cfgs in gens:
                    if rep.viol_count >= 200:
                        rep.notes["shard_stopped_after_200_violations"] += 1
                        break
                    ok, klass, detail = run_case(env, width, cfgs)
                    case = {"width": width, "block": 4096, "host": host, "cfgs": [list(c) for c in cfgs]}
                    rep.case(case, ok=ok, klass="long:" + klass, nontrivial=True, detail=detail, sig="long:" + klass)
            return
        if "replay_case" in shard:
            c = shard["replay_case"]
            with Env(c["block"], c["host"]) as env:
                if env.skipped:
                    rep.case(c, klass="skipped")
                    return
                ok, klass, detail = run_case(env, c["width"], [tuple(x) for x in c["cfgs"]])
                rep.case(c, ok=ok, klass=klass, detail=detail, sig=klass)
            return
        width, block, host, k = shard["width"], shard["block"], shard["host"], shard["k"]
        with Env(block, host) as env:
            if env.skipped:
                rep.notes["skipped: " + env.skipped] += 1
                return
            fr = shard.get("frames") or FRAMES
            if k == 1:
                gen = [(c,) for c in stream_cfgs(fr)]
            else:
                first = tuple(shard["first"])
                gen = ((first,) + rest for rest in itertools.product(list(stream_cfgs(fr)), repeat=k - 1))
            for cfgs in gen:
                if rep.viol_count >= 200:
                    # the shard's verdict is decided; code that keeps state across transcoders may slow down with every case
                    rep.notes["shard_stopped_after_200_violations"] += 1
                    break
                ok, klass, detail = run_case(env, width, cfgs)
                total = sum(c[0] for c in cfgs)
                nt = total >= 2 or len({c[1] for c in cfgs}) > 1 or len({c[2] for c in cfgs}) > 1
                case = {"width": width, "block": block, "host": host, "cfgs": [list(c) for c in cfgs]}
                mixed = len({c[1] for c in cfgs}) > 1 and total > len(cfgs)
                rep.case(case, ok=ok, klass=klass, nontrivial=nt, detail=detail,
                         sig=f"{klass}:{'mixed-orders+multichannel' if mixed else 'other'}")
