"""C02 -- Roland S-7xx export is byte-exact for every cluster chain and loop mode."""
import copy
import itertools

from mcv.engine import core, tree
from mcv.engine.core import CheckBase, Report, exc_sig
from mcv.gen import roland as R

CW = R.CLUSTER_WORDS


def simple_model(samples, fat_version=1):
    """one volume / performance / patch / partial(s) referencing the given samples (<=4 per partial)"""
    idxs = sorted(samples)
    partials = {}
    for k in range(0, len(idxs), 4):
        partials[k // 4] = {"name": f"PART{k // 4}", "samples": idxs[k:k + 4]}
    return {"fat_version": fat_version,
            "volumes": [{"name": "VOL", "perfs": [0]}],
            "performances": {0: {"name": "PERF", "patches": [0]}},
            "patches": {0: {"name": "PATCH", "partials": sorted(partials)}},
            "partials": partials, "samples": samples}


def sweep_chains(quick):
    for m in (1, 2, 3):
        pool = list(range(2, 2 + m + 2))
        for assign in itertools.permutations(pool, m + 1):
            ch1, ch2 = list(assign[:m]), [assign[m]]
            for ct in sorted({0, min(1, m - 1), m - 1}):
                nw = (m - ct) * CW
                yield {"sweep": "chains", "model": simple_model({
                    0: {"name": "ONE", "chain": ch1, "cluster_top": ct, "points": [0, 1, nw - 1, 2, 3], "mode": 0, "seq": 1},
                    1: {"name": "TWO", "chain": ch2, "points": [3, 4, 900, 5, 6], "mode": 2, "freq": 3, "seq": 2}})}


def sweep_endmarks(quick):
    """every end-of-chain word 0xFFF8..0xFFFF, chains of 1..3 clusters in both orders"""
    for end in range(0xFFF8, 0x10000):
        for m in (1, 2, 3):
            for order in ("asc", "desc"):
                ch = list(range(2, 2 + m))
                if order == "desc":
                    ch = ch[::-1]
                nw = m * CW
                yield {"sweep": "endmarks", "model": simple_model({
                    0: {"name": "ENDW", "chain": ch, "points": [1, 1, nw - 1, 2, 3], "mode": 0, "seq": 4, "end_word": end},
                    1: {"name": "TWO", "chain": [6], "points": [0, 4, 77, 5, 6], "mode": 2, "seq": 2, "end_word": 0xFFF8 + (end & 7) ^ 5}})}


def sweep_window(quick):
    for mode in range(7):
        for start in (0, 1):
            for e in (start, 2046, 2047, 2048, 4095, 4096, CW - 2, CW - 1, CW, 2 * CW - 1):
                need = e // CW + 1
                for order in ("asc", "desc"):
                    if need == 1 and order == "desc":
                        continue
                    ch = list(range(2, 2 + need))
                    if order == "desc":
                        ch = ch[::-1]
                    other = max(start, e // 2 - 3)
                    if mode in (1, 3):
                        pts = [start, start, other, start, e]
                    else:
                        pts = [start, start, e, start, other]
                    yield {"sweep": "window", "model": simple_model({
                        0: {"name": "WIN", "chain": ch, "points": pts, "mode": mode, "seq": 7}})}


def sweep_fine(quick):
    """the fine (fractional) byte of every loop point takes its corner values: the exported window is decided by the word
    address alone"""
    for mode in (0, 1, 2, 5, 6, 3):
        for fine in ((0x7F,) * 5, (0x80,) * 5, (0xFF,) * 5, (0xFF, 0, 0x80, 0x7F, 1), (1, 0xFF, 0, 0x80, 0xFF), (0, 0, 0xFF, 0, 0xFF)):
            for start, e in ((0, 100), (3, CW - 1), (1, CW), (2, 4096)):
                need = e // CW + 1
                other = max(start, e // 2 - 3)
                pts = [start, start, other, start, e] if mode in (1, 3) else [start, start, e, start, other]
                yield {"sweep": "fine", "model": simple_model({0: {"name": "FINE", "chain": list(range(2, 2 + need))[::-1], "points": pts,
                                                                   "fine": list(fine), "mode": mode, "seq": 8}})}


def sweep_header(quick):
    for freq in range(6):
        for ver in (1, 2):
            for key in (0, 21, 60, 127, 255):
                for pad in (" ", "\0"):
                    m = simple_model({0: {"name": "HDR", "chain": [2], "points": [0, 0, 99, 0, 50], "mode": 0,
                                          "freq": freq, "key": key, "seq": 3}}, ver)
                    m["pad"] = pad
                    yield {"sweep": "header", "model": m}


def base_topology():
    samples = {}
    for i in range(6):
        samples[i] = {"name": f"SMP{i}", "chain": [2 + i], "points": [i, i, 50 + 10 * i, i, 20 + i],
                      "mode": [0, 1, 2, 3, 5, 4][i], "freq": i % 6, "seq": 10 + i}
    # sample 3 is shared (partials 2 and 4) and starts after a leading-cluster offset
    samples[3]["chain"], samples[3]["cluster_top"] = [9, 5], 1
    return {
        "volumes": [{"name": "VOLA", "perfs": [0, 1]}, {"name": "VOLB", "perfs": [2]}],
        "performances": {0: {"name": "PERF0", "patches": [0, 1]}, 1: {"name": "PERF1", "patches": [1]},
                         2: {"name": "PERF2", "patches": [2]}, 3: {"name": "PERF3", "patches": [3]}},
        "patches": {0: {"name": "PATCH0", "partials": [0, 1]}, 1: {"name": "PATCH1", "partials": [2]},
                    2: {"name": "PATCH2", "partials": [3]}, 3: {"name": "PATCH3", "partials": [4]}},
        "partials": {0: {"name": "PART0", "samples": [0, 1]}, 1: {"name": "PART1", "samples": [2]},
                     2: {"name": "PART2", "samples": [3]}, 3: {"name": "PART3", "samples": [4]},
                     4: {"name": "PART4", "samples": [3]}},
        "samples": samples}   # sample 5 is unreferenced; performance 3 is an orphan


def edges():
    out = []
    for v in range(2):
        for p in range(4):
            out.append(("vp", v, p))
    for p in range(4):
        for a in range(4):
            out.append(("pa", p, a))
    for a in range(4):
        for l in range(5):
            out.append(("al", a, l))
    for l in range(5):
        for s in range(6):
            out.append(("ls", l, s))
    return out


def flip(model, e):
    kind, a, b = e
    lst = {"vp": lambda: model["volumes"][a]["perfs"], "pa": lambda: model["performances"][a]["patches"],
           "al": lambda: model["patches"][a]["partials"], "ls": lambda: model["partials"][a]["samples"]}[kind]()
    if b in lst:
        lst.remove(b)
    else:
        if kind == "ls" and len(lst) >= 4:
            return False
        lst.append(b)
    return True


def sweep_topology(quick):
    yield {"sweep": "topology", "model": base_topology(), "flips": []}
    es = edges()
    for e in es:
        m = base_topology()
        if flip(m, e):
            yield {"sweep": "topology", "model": m, "flips": [list(e)]}
    # no volumes at all / single performance / partial with four samples
    m = base_topology()
    m["volumes"] = []
    yield {"sweep": "topology", "model": m, "flips": ["no-volumes"]}
    m = base_topology()
    m["partials"][0]["samples"] = [0, 1, 2, 5]
    yield {"sweep": "topology", "model": m, "flips": ["four-samples"]}
    m = base_topology()
    m["volumes"] = [{"name": "VOLA", "perfs": [0, 1, 2, 3]}]
    yield {"sweep": "topology", "model": m, "flips": ["all-referenced"]}
    if not quick:
        for e1, e2 in itertools.combinations(es, 2):
            m = base_topology()
            if flip(m, e1) and flip(m, e2):
                yield {"sweep": "topology", "model": m, "flips": [list(e1), list(e2)]}


def sweep_slots(quick):
    """reference lists that are NOT packed from their first slot: every assignment of the four sample slots of a partial
    over {unused, s0, s1, s5}; sparse partial / patch / performance lists (first slot unused, gaps, last slot used)"""
    alpha = (-1, 0, 5) if quick else (-1, 0, 1, 5)
    for slots in itertools.product(alpha, repeat=4):
        m = base_topology()
        m["partials"][0]["samples"] = list(slots)
        yield {"sweep": "slots", "model": m, "flips": ["sample-slots", list(slots)]}
    # ... and lists without any unused slot (all 88 keys / 32 patches / 64 performances assigned)
    for lst in ([-1, 0, 1], [0, -1, 1], [-1, -1, 1, -1, 0], [-1] * 87 + [1], [1] + [-1] * 86 + [0],
                [0] * 88, [1] * 88, [0, 1] * 44, [1] * 87 + [0], [0] * 44 + [1] * 44):
        m = base_topology()
        m["patches"][0]["partials"] = list(lst)
        yield {"sweep": "slots", "model": m, "flips": ["partial-list", [i for i, x in enumerate(lst) if x >= 0]]}
    for lst in ([-1, 0, 1], [0, -1, 1], [-1] * 31 + [0], [1] + [-1] * 30 + [0], [0] * 32, [1] * 32, [0, 1] * 16, [1] * 31 + [0]):
        m = base_topology()
        m["performances"][0]["patches"] = list(lst)
        yield {"sweep": "slots", "model": m, "flips": ["patch-list", [i for i, x in enumerate(lst) if x >= 0]]}
    for lst in ([-1, 0, 1], [1, -1, 0], [-1] * 63 + [1], [0] + [-1] * 62 + [1], [0] * 64, [1] * 64, [0, 1] * 32, [1] * 63 + [0]):
        m = base_topology()
        m["volumes"][0]["perfs"] = list(lst)
        yield {"sweep": "slots", "model": m, "flips": ["performance-list", [i for i, x in enumerate(lst) if x >= 0]]}


def sweep_shared_chain(quick):
    """two samples living in ONE cluster chain (same first cluster), told apart by their leading-cluster offsets: every
    order of a 3-cluster chain x every pair of distinct offsets x same partial / different performances"""
    for ch in itertools.permutations((2, 3, 4)):
        for ta, tb in itertools.permutations((0, 1, 2), 2):
            for split in (False, True):
                smp = {0: {"name": "HALFA", "chain": list(ch), "cluster_top": ta, "points": [0, 0, CW * (3 - ta) - 7, 0, 9], "mode": 0, "seq": 7},
                       1: {"name": "HALFB", "chain": list(ch), "cluster_top": tb, "points": [1, 1, CW * (3 - tb) - 5, 1, 9], "mode": 0, "seq": 7},
                       2: {"name": "ELSE", "chain": [6, 5], "points": [0, 0, CW + 9, 0, 9], "mode": 0, "seq": 8}}
                m = simple_model(smp)
                if split:
                    m["volumes"][0]["perfs"] = [0, 1]
                    m["performances"][1] = {"name": "PERF1", "patches": [1]}
                    m["patches"][1] = {"name": "PATCH1", "partials": [1]}
                    m["partials"][0]["samples"] = [0, 2]
                    m["partials"][1] = {"name": "PART1", "samples": [1]}
                yield {"sweep": "sharedchain", "model": m}


def sweep_high_slots(quick):
    """items stored in the highest (and other far-away) slots of their directory areas: performance 511, patch 1023,
    partial 4095, sample 8191, volume 127 -- one level at a time and all together"""
    def model(perf=0, patch=0, partial=0, sample=0, vol=0):
        m = {"volumes": [], "performances": {perf: {"name": "PERF", "patches": [patch]}},
             "patches": {patch: {"name": "PATCH", "partials": [partial] + [-1] * 86 + [partial]}},
             "partials": {partial: {"name": "PART", "samples": [sample, -1, 1 if sample != 1 else 2]}},
             "samples": {sample: {"name": "HIGH", "chain": [3, 2], "points": [0, 0, CW + 11, 0, 9], "mode": 0, "seq": 3},
                         (1 if sample != 1 else 2): {"name": "LOW", "chain": [5], "points": [0, 0, 99, 0, 9], "mode": 0, "seq": 4}}}
        m["volumes"] = [{"name": "V%d" % i, "perfs": []} for i in range(vol)] + [{"name": "VOL", "perfs": [perf]}]
        m["count_mode"] = "max"
        return m
    tops = {"perf": 511, "patch": 1023, "partial": 4095, "sample": 8191}
    for k, top in tops.items():
        for v in sorted({top, top // 2, top // 2 + 1, 7}):
            yield {"sweep": "highslots", "model": model(**{k: v}), "flips": [k, v]}
    # orphan performances (referenced by no volume) behind free slots of the performance directory
    for owned, orphans in (([0], [2]), ([0], [1, 5]), ([], [3]), ([1], [0, 511]), ([4], [2, 6, 7])):
        m = {"volumes": [{"name": "VOL", "perfs": list(owned)}] if owned else [], "performances": {}, "patches": {}, "partials": {}, "samples": {},
             "count_mode": "max"}
        for k, pi in enumerate(list(owned) + list(orphans)):
            m["performances"][pi] = {"name": "PERF%d" % pi, "patches": [k]}
            m["patches"][k] = {"name": "PATCH%d" % k, "partials": [k]}
            m["partials"][k] = {"name": "PART%d" % k, "samples": [k]}
            m["samples"][k] = {"name": "SMP%d" % k, "chain": [2 + k], "points": [0, 0, 100 + k, 0, 9], "mode": 0, "seq": 5 + k}
        yield {"sweep": "highslots", "model": m, "flips": ["orphans-behind-free-slots", list(owned), list(orphans)]}
        # ... and with the ID area's performance COUNT (number of performances, not highest slot + 1) below the orphan's slot
        m2 = copy.deepcopy(m)
        m2.pop("count_mode")
        yield {"sweep": "highslots", "model": m2, "flips": ["orphans-beyond-the-count", list(owned), list(orphans)]}
    yield {"sweep": "highslots", "model": model(**tops), "flips": ["all-top"]}
    yield {"sweep": "highslots", "model": model(vol=3), "flips": ["vol", 3]}


def sweep_fat_header(quick):
    """the redundant words of the FAT area (free-cluster count in word 1, version flags in the last two words) take
    consistent, stale and garbage values; chains of 1..4 clusters in ascending and descending order"""
    for free in (0, 1, 2, 0xFFF0 - 6, 0x8000, 0xFFF1, 0xFFF7, 0xFFFE, 0xFFFF):
        for ver in (1, 2):
            for m_ in (1, 2, 4):
                for rev in (False, True):
                    ch = list(range(2, 2 + m_))
                    if rev:
                        if m_ == 1:
                            continue
                        ch = ch[::-1]
                    m = simple_model({0: {"name": "HDR", "chain": ch, "points": [0, 0, CW * m_ - 3, 0, 50], "mode": 0, "seq": 4},
                                      1: {"name": "TWO", "chain": [9, 8], "points": [0, 0, CW + 5, 0, 50], "mode": 0, "seq": 5}}, ver)
                    m["free_count"] = free
                    yield {"sweep": "fatheader", "model": m}


R_NAME_FAMILIES = {"dots": ["KICK.1", "KICK.2", "V1.5 PAD"], "dotend": ["A.", "B.", ".C"], "dash": ["A-", "B-", "-C"],
                   "symbols": ["A#B", "A&B", "A'B"], "case": ["kick", "Kick", "KICK"], "digits": ["1", "2", "10"],
                   "long16": ["ABCDEFGHIJKLMNOP", "ABCDEFGHIJKLMNOQ", "ABCDEFGHIJKLMN.P"], "spaces": ["A B", "A  B", "A B C"], "wavext": ["kick", "kick.wav", "kick.WAV"], "dup": ["KICK", "KICK", "SNARE"], "dup3": ["KICK", "KICK", "KICK"]}


def sweep_names(quick):
    """names in the shapes naming code treats specially, at sample and at volume / performance level; judged by content
    only (one file per referenced sample with exactly its audio) -- the names themselves are C06's business"""
    for fam in sorted(R_NAME_FAMILIES):
        for outer in (("VOL", "PERF"), ("VOL 1.5", "P.1"), ("V.", "P-")):
            samples = {i: {"name": nm, "chain": [2 + 2 * i, 3 + 2 * i][::-1] if i == 1 else [2 + 2 * i],
                           "points": [0, 0, 100 + 50 * i, 0, 20], "mode": 0, "freq": i, "seq": 20 + i}
                       for i, nm in enumerate(R_NAME_FAMILIES[fam])}
            m = simple_model(samples)
            m["volumes"][0]["name"], m["performances"][0]["name"] = outer
            yield {"sweep": "names", "family": fam, "model": m}


def sweep_blanknames(quick):
    """a directory entry whose 16-byte name is blank is an entry like any other: blank names at every level (sample, partial,
    patch, performance, volume), one level at a time, two at a time and all together; judged by content only"""
    levels = ("sample", "partial", "patch", "performance", "volume")
    sets = [(l,) for l in levels] + list(itertools.combinations(levels, 2)) + [levels]
    for blank in sets:
        for nblank_samples in ((1, 2) if "sample" in blank else (0,)):
            samples = {i: {"name": "" if i < nblank_samples else f"SMP{i}", "chain": [2 + 2 * i, 3 + 2 * i][::-1] if i == 1 else [2 + 2 * i],
                           "points": [0, 0, 100 + 50 * i, 0, 20], "mode": 0, "freq": i, "seq": 30 + i} for i in range(3)}
            m = simple_model(samples)
            if "partial" in blank:
                m["partials"][0]["name"] = ""
            if "patch" in blank:
                m["patches"][0]["name"] = ""
            if "performance" in blank:
                m["performances"][0]["name"] = ""
            if "volume" in blank:
                m["volumes"][0]["name"] = ""
            yield {"sweep": "blanknames", "blank": list(blank), "blank_samples": nblank_samples, "model": m}


def norm_model(m):
    """JSON round trip turns int keys into strings: normalise back."""
    m = copy.deepcopy(m)
    for k in ("performances", "patches", "partials", "samples"):
        m[k] = {int(i): v for i, v in m.get(k, {}).items()}
    return m


def nontrivial(case):
    m = case["model"]
    if case["sweep"] in ("topology", "slots", "highslots"):
        return bool(case.get("flips"))
    if case["sweep"] == "blanknames":
        return True
    for s in m["samples"].values():
        ch = s["chain"]
        if ch != sorted(ch) or s.get("cluster_top", 0) or s.get("mode", 0) in (5, 6):
            return True
        end = s["points"][4] if s.get("mode", 0) in (1, 3) else s["points"][2]
        if (end + 1) % CW == 0:
            return True
    return False


def run_case(case):
    model = norm_model(case["model"])
    img, layout = R.build_roland(model)
    expected = R.expected_exports(model)
    res = tree.full_run(img, cpu_s=30.0, ls_paths=("",), again=case["sweep"] in ("topology", "slots", "names", "blanknames", "sharedchain", "window"))
    if res["status"] == "hang":
        return False, "hang", {"observed": "non-termination (cpu budget)"}
    if res.get("again"):
        return False, "second-export-differs", res["again"]
    if res["status"] == "exc":
        return False, "raised:" + exc_sig(res["exc"]), {"observed": repr(res["exc"])[:300], "files": sorted(res["files"])[:5]}
    if case["sweep"] in ("names", "blanknames"):
        from mcv.ref import riff
        got = []
        for p_, b_ in res["files"].items():
            w = riff.validate(b_)
            if w.errors:
                return False, "invalid-wav", {"path": p_, "errors": w.errors[:2]}
            got.append((w.fmt["channels"], w.fmt["rate"], w.data))
        # (by content: a list, not a dict keyed by path -- equal names are part of the families)
        want = sorted((1, R.FREQS[model["samples"][si].get("freq", 1)], R.sample_pcm(model["samples"][si]))
                      for p_ in sorted(model["performances"]) for si in R.reachable_samples(model, p_))
        if sorted(got) != want or len(res["reported"]) != len(want):
            return False, "names:samples-lost-or-changed", {"samples": sorted(expected), "files": sorted(res["files"]),
                                                            "reported": res["reported"]}
        return True, f"ok-by-content:{len(want)}files", None
    errs = tree.compare_export(expected, res["files"], res["reported"])
    if errs:
        kind = "pathset" if "path sets" in errs[0] else ("pcm" if "pcm differs" in errs[0] else "wav")
        return False, "mismatch:" + kind, {"errors": errs[:4], "expected_paths": sorted(expected)[:8], "flips": case.get("flips")}
    return True, f"ok:{len(expected)}files", None


class Check(CheckBase):
    id = "C02"
    level = "exploration"
    title = "Roland S-7xx export is byte-exact for every cluster chain and loop mode"
    rule = ("union of exhaustive sweeps over writer-generated 2.9 MB images: (chains) sample of m in {1,2,3} clusters "
            "+ a second sample, all injective cluster assignments over pool m+2 x cluster_top {0,1,m-1}; (window) 7 loop "
            "modes x start {0,1} x end on {start, cluster-2, cluster-1 (fills cluster), cluster, 2*cluster-1} written to "
            "the field the mode selects with a conflicting value in the other x chain order; (fine) 6 fine-byte patterns (0x7F, 0x80, 0xFF, mixed) "
            "for the five loop points x 6 modes x 4 windows; (endmarks) every end-of-chain word 0xFFF8..0xFFFF x chain length x order; (header) 6 frequency codes "
            "x FAT version x key x name padding; (topology) base reference graph + every single edge flip of "
            "volume->performance->patch->partial->sample relations [thorough: all pairs of flips], no volumes, four "
            "samples per partial, unreferenced sample, orphan performance; (slots) every assignment of a partial's four sample "
            "slots over {unused, 3 samples}, sparse and completely filled partial / patch / performance lists incl. the last slot; (fatheader) "
            "free-cluster count word x FAT version x chain length 1,2,4 x order; (highslots) items in the highest / middle slots of each directory area (performance 511, patch 1023, partial 4095, sample 8191), orphan performances behind free directory slots (ID-area count = highest slot + 1, and = number of performances); (sharedchain) two samples in one chain: 6 chain orders x 6 offset pairs x same partial / other performance; (names) 11 families (incl. two / three distinct samples with one name) of special name shapes x "
            "3 volume/performance names, judged by content only; (blanknames) blank 16-byte names at every level (sample x1/x2, partial, patch, performance, volume) one / two at a time and all together, judged by content; the window, topology, slots, names and sharedchain cases export "
            "twice from one image object and the second export must equal the first. non-trivial = permuted chain, cluster_top>0, "
            "reverse mode, window ending on a cluster boundary, or a flipped edge")
    assumptions = ["independent S-7xx writer (mcv/gen/roland.py) and RIFF walker are correct",
                   "names plain and collision-free (collisions: C05/C06)"]

    def shards(self):
        cases = []
        for sw in (sweep_window, sweep_fine, sweep_header, sweep_fat_header, sweep_endmarks, sweep_chains, sweep_topology, sweep_slots, sweep_names, sweep_blanknames, sweep_shared_chain, sweep_high_slots):
            cases.extend(sw(self.quick))
        return self.chunk(cases, 6 if self.quick else 20)

    def run_shard(self, shard, rep: Report):
        cases = [shard["replay_case"]] if "replay_case" in shard else shard["cases"]
        for case in cases:
            ok, klass, detail = run_case(case)
            rep.case(case, ok=ok, klass=klass, nontrivial=nontrivial(case), detail=detail,
                     sig=f"{case['sweep']}:{klass}")
