"""C09 -- listing and export do not depend on the container the image is wrapped in."""
import itertools
import os

from mcv.engine import core, tree
from mcv.engine.core import CheckBase, Report, exc_sig, guarded, scratch_dir
from mcv.gen import akai as A
from mcv.gen import roland as R
from mcv.gen import containers as C
from mcv.gen import cue as Q
from mcv.checks.c10 import parse_table

ENCODINGS = ["raw", "raw2352", "mdx", "cue_raw", "cue_2352", "cue_subdir", "cue_cosmetic", "mdx20", "raw2352_mixed", "cue_2352_mixed", "cue_numbers"]


def write_encodings(d, payload):
    paths = {}
    raw2352 = C.mode1_2352(payload)
    for name, data in (("raw.img", payload), ("raw2352.bin", raw2352), ("x.mdx", C.mdx(payload)),
                       ("a.bin", payload), ("b.bin", raw2352)):
        with open(os.path.join(d, name), "wb") as f:
            f.write(data)
    # the same wrapper with version bytes 2.0 (the reader has never looked at them) and without anything behind the payload
    with open(os.path.join(d, "y.mdx"), "wb") as f:
        f.write(C.mdx(payload, descriptor=0, version=b"\x02\x00"))
    # a mixed-mode disc: the data track in 2352-byte raw sectors, followed by an audio track (raw sectors without sync
    # pattern / header), as a bare bin and through its cue sheet
    nsec = len(raw2352) // 2352
    audio = bytes((k * 29 + 7) % 253 for k in range(3 * 2352))
    with open(os.path.join(d, "m.bin"), "wb") as f:
        f.write(raw2352 + audio)
    m, r = divmod(nsec, 60 * 75)
    with open(os.path.join(d, "m.cue"), "w") as f:
        f.write(C.data_cue("m.bin", "MODE1/2352") + '  TRACK 02 AUDIO\n    INDEX 01 %02d:%02d:%02d\n' % (m, r // 75, r % 75))
    with open(os.path.join(d, "a.cue"), "w") as f:
        f.write(C.data_cue("a.bin", "MODE1/2048"))
    with open(os.path.join(d, "b.cue"), "w") as f:
        f.write(C.data_cue("b.bin", "MODE1/2352"))
    # a cue sheet that names its bin with a directory component; a different image of the same name lies beside the cue
    os.makedirs(os.path.join(d, "sub", "images"))
    with open(os.path.join(d, "sub", "images", "disc.bin"), "wb") as f:
        f.write(payload)
    with open(os.path.join(d, "sub", "disc.bin"), "wb") as f:
        f.write(b"\x00" * 4096)
    with open(os.path.join(d, "sub", "c.cue"), "w") as f:
        f.write(C.data_cue("images/disc.bin", "MODE1/2048"))
    # the same sheet as a.cue written the way other tools write it: lower / mixed case keywords, header and unknown lines
    # in any case, blanks, tabs, blank lines, CR LF line ends
    with open(os.path.join(d, "d.cue"), "wb") as f:
        f.write(b'rem made by some tool\r\nTitle "disc"\r\nperformer "x"\r\nRem FILE "z.bin" BINARY\r\n  file "a.bin" binary  \r\n\r\n'
                b'\ttrack 01 mode1/2048\r\n      flags dcp\r\n      Index 01 00:00:00  \r\n\r\n')
    # track and index numbers written without their leading zero (and a three-digit form in the header remark)
    with open(os.path.join(d, "n.cue"), "w") as f:
        f.write('REM TRACK 001\nFILE "b.bin" BINARY\n  TRACK 1 MODE1/2352\n    INDEX 1 00:00:00\n')
    return {"cue_numbers": os.path.join(d, "n.cue"), "raw2352_mixed": os.path.join(d, "m.bin"), "cue_2352_mixed": os.path.join(d, "m.cue"), "mdx20": os.path.join(d, "y.mdx"), "cue_cosmetic": os.path.join(d, "d.cue"), "raw": os.path.join(d, "raw.img"), "raw2352": os.path.join(d, "raw2352.bin"), "mdx": os.path.join(d, "x.mdx"),
            "cue_raw": os.path.join(d, "a.cue"), "cue_2352": os.path.join(d, "b.cue"), "cue_subdir": os.path.join(d, "sub", "c.cue")}


def observe(path):
    """-> dict(class, ls {node path: text}, files {rel: bytes}, reported)"""
    img = tree.open_image(path)
    obs = {"class": type(img).__name__, "ls": {}}

    def walk(tokens, depth):
        p = "/".join(tokens)
        out = tree.ls(img, p)
        obs["ls"][p] = out
        names = parse_table(out)
        if names and depth < 4:
            for nm in names:
                if nm.strip():
                    walk(tokens + [nm], depth + 1)
    walk([], 0)
    out, files, reported = tree.export(tree.open_image(path))
    obs["files"], obs["reported"] = files, sorted(reported)
    return obs


def run_case(case):
    if case["fmt"] == "akai":
        payload = A.build_akai(A.model_from_spec(case["spec"]))[0]
    else:
        from mcv.checks import c02
        payload = R.build_roland(c02.norm_model(case["model"]))[0]
    if case.get("drop_sectors"):
        payload = payload[:len(payload) - 8192 * case["drop_sectors"]]
    if case.get("keep_sectors"):
        payload = payload[:8192 * case["keep_sectors"]]
    if case.get("drop_bytes"):
        # the image file ends a little before the end of its last allocated cluster (the audio does not reach that far)
        payload = payload[:len(payload) - case["drop_bytes"]]
    if case.get("drop_2048"):
        # the image ends early INSIDE the audio of its last sample (cut at a multiple of 2048: every container carries the
        # same logical bytes; behind the MDX payload lies the wrapper's descriptor, which is not part of the image)
        payload = payload[:len(payload) - 2048 * case["drop_2048"]]
    payload += bytes((i * 7 + 1) & 0xFF for i in range(case.get("trailing", 0))) if case.get("trail_kind") == "junk" else bytes(case.get("trailing", 0))
    with scratch_dir("c09") as d:
        paths = write_encodings(d, payload)
        base = None
        cut = any(case.get(k) for k in ("drop_sectors", "drop_bytes", "drop_2048", "keep_sectors"))
        for enc in ENCODINGS:
            if cut and enc.endswith("_mixed"):
                # behind an image that ends early the audio track would stand where the missing bytes were: not the same image
                continue
            st, obs = guarded(lambda: observe(paths[enc]), 120.0)
            if st != "ok":
                return False, f"{enc}:" + ("raised:" + exc_sig(obs) if st == "exc" else "hang"), {"encoding": enc, "observed": repr(obs)[:300]}
            if base is None:
                base = obs
                if len(base["ls"]) < 2 and case.get("expect_nodes", 2) >= 2:
                    return False, "raw-image-not-recognised", {"class": base["class"], "ls": base["ls"].get("", "")[:200]}
                continue
            if obs["class"] != base["class"]:
                return False, f"{enc}:class-differs", {"raw": base["class"], enc: obs["class"]}
            if obs["ls"] != base["ls"]:
                k = next((k for k in base["ls"] if obs["ls"].get(k) != base["ls"][k]), None)
                if k is None:
                    k = next(iter(set(obs["ls"]) - set(base["ls"])), "?")
                return False, f"{enc}:ls-differs", {"node": k, "raw": base["ls"].get(k, "<missing>")[:200], enc: obs["ls"].get(k, "<missing>")[:200]}
            if obs["files"] != base["files"] or obs["reported"] != base["reported"]:
                diff = sorted(set(obs["files"]) ^ set(base["files"]))[:4] or [p for p in base["files"] if obs["files"][p] != base["files"][p]][:4]
                return False, f"{enc}:export-differs", {"paths": diff}
        return True, f"same:{base['class']}:{len(base['ls'])}nodes:{len(base['files'])}files", None


def run_detect(case):
    """cue dispatch: all-audio -> CDDA; a data track -> sampler image."""
    with scratch_dir("c09d") as d:
        akai = A.build_akai(A.model_from_spec({"parts": [{"vols": [{"name": "VOL", "dir": [3], "files": [
            {"name": "SMP", "n": 40, "chain": [4], "seq": 1}]}]}]}))[0]
        n = len(case["modes"])
        step = 3 if n <= 3 else 1
        binname = case.get("bin_name", "disc.bin")
        with open(os.path.join(d, binname), "wb") as f:
            f.write(akai if case["data"] else Q.bin_bytes(Q.SECTOR * max(10, n * step + 2)))
        tracks = []
        for i, mode in enumerate(case["modes"]):
            t = {"number": i + 1, "mode": mode, "indices": [(1, i * step)]}
            if case.get("titles"):
                t["title"] = "Track number %02d of this disc" % (i + 1)
                t["extra"] = ['PERFORMER "Somebody"']
            tracks.append(t)
        p = os.path.join(d, case.get("cue_name", "disc.cue"))
        with open(p, "w") as f:
            # long sheets: REM lines before the FILE line (legal anywhere, ignored)
            f.write("".join("REM comment line %04d %s\n" % (k, "x" * 40) for k in range(case.get("preamble", 0))))
            f.write(Q.cue_text(binname, tracks))
            for j in range(case.get("more_files", 0)):
                # one bin per track, the way mixed-mode discs are usually dumped: the data track lives in the first FILE
                f.write('FILE "audio%02d.bin" BINARY\n  TRACK %02d AUDIO\n    INDEX 00 00:00:00\n    INDEX 01 00:02:00\n' % (j + 2, len(tracks) + j + 1))
        def go():
            img = tree.open_image(p)
            return type(img).__name__, tree.ls(img, "")
        st, obs = guarded(go, 30.0)
        st_b, base = guarded(lambda: tree.ls(tree.open_image(os.path.join(d, binname)), ""), 30.0)
    want = "CompactDiskAudioImage" if all(m.upper() == "AUDIO" for m in case["modes"]) else "AkaiImageParser"
    if st != "ok":
        return False, "detect-" + ("raised:" + exc_sig(obs) if st == "exc" else "hang"), {"observed": repr(obs)[:200]}
    brief = case["modes"] if len(case["modes"]) <= 4 else [f"{len(case['modes'])} tracks, last: {case['modes'][-1]}"]
    if obs[0] != want:
        return False, "detect-class", {"modes": brief, "preamble": case.get("preamble", 0), "expected": want, "observed": obs[0]}
    if not case["data"] and len(parse_table(obs[1]) or []) != len(case["modes"]):
        return False, "detect-track-count", {"tracks_in_sheet": len(case["modes"]), "listed": len(parse_table(obs[1]) or [])}
    if case["data"] and (st_b != "ok" or obs[1] != base or "A:" not in obs[1]):
        # a sheet with a data track is the sampler image of its bin file: same root listing as the bin opened directly
        return False, "detect-not-the-bin-image", {"modes": brief, "preamble": case.get("preamble", 0), "bin_listing": repr(base)[:150], "cue_listing": obs[1][:150]}
    return True, "detect:" + obs[0], None


class Check(CheckBase):
    id = "C09"
    level = "exploration"
    title = "Listing and export do not depend on the container the image is wrapped in"
    rule = ("case library = AKAI length/header/structure sweeps of C01 (quick: every 4th + all boundary lengths) and Roland "
            "chains/window/header sweeps of C02 (quick: every 12th; odd cluster counts make cluster reads straddle 2048-byte "
            "user-data boundaries) x trailing bytes {0,1,2047,2048} (zero and non-zero), one small image with every trailing sector count 0..127 "
            "(thorough 0..511), truncated payloads (whole sectors dropped; the image ending inside the audio of its last sample, or right behind the last sector of a sample that fills it exactly / nearly; Roland images ending 1..2048 bytes before the end of their last cluster; Roland images with orphan performances), x the encodings {raw, MODE1/2352, "
            "MDX (version 2.1 with the descriptor behind the payload; version 2.0 without), 2352-byte sectors followed by an audio track (bare and through its cue sheet), cue->raw, cue->2352, cue in another directory naming its bin with a path, cue->2352 with track / index numbers written without leading zero, cue->raw written with lower/mixed case "
            "keywords, header and unknown lines, tabs, blank lines and CR LF} as real files: same image class, character-identical ls text at every node reachable "
            "through the printed names, identical exported trees (paths + bytes); cue dispatch: all combinations of "
            "AUDIO/MODE1/2352/MODE2/2352 modes over <=3 tracks; long sheets: n titled audio tracks (+ a data track last) for "
            "every n<=98, k comment lines before FILE for every k<300 (thorough <1200) and 5000, 20000; an all-audio sheet "
            "lists exactly its tracks; 8 bin file names with blanks / several dots / upper case / no suffix; sheets with 1, 2, 5 further FILE entries (one bin per track) after the data track's; the sheet named DISC.CUE / Disc.Cue / disc.CUE / with a blank / with two dots. non-trivial = image with >=1 exported file")
    assumptions = ["MODE1/2352 and MDX writers follow the layouts in DESIGN appendix A"]

    def shards(self):
        from mcv.checks import c01, c02
        ak = []
        length = list(c01.sweep_length(self.quick))
        ak += [c for c in length if c["spec"]["parts"][0]["vols"][0]["files"][0]["n"] in (4026, 8122, 12218, 0)] if self.quick else length
        ak += list(c01.sweep_header(self.quick))[::(4 if self.quick else 1)]
        ak += list(c01.sweep_structure(self.quick))[::(4 if self.quick else 1)]
        cases = []
        for i, c in enumerate(ak):
            tr = [0, 1, 2047, 2048][i % 4] if self.quick else None
            for t in ([tr] if tr is not None else [0, 1, 2047, 2048]):
                cases.append({"fmt": "akai", "spec": c["spec"], "trailing": t, "trail_kind": "junk" if (i // 4) % 2 else "zero"})
        # payloads whose last partition declares more sectors than the file holds (cut at multiples of 2048, so that no
        # container adds padding and all five carry the same logical bytes)
        for nparts in (1, 2):
            for drop in (1, 2, 3):
                spec = c01.structure_spec(nparts, 2, 3, 3, "linked", pair=True)
                cases.append({"fmt": "akai", "spec": spec, "trailing": 0, "trail_kind": "zero", "drop_sectors": drop})
        last = c01.one_file_spec(10000, 0, 10000, "rev")
        for k in (1, 2, 3, 4, 5, 7, 9):
            cases.append({"fmt": "akai", "spec": last, "trailing": 0, "trail_kind": "zero", "drop_2048": k})
        # the image ends RIGHT BEHIND the last sector of its last sample (a dump that stops with the last used sector), the
        # sample filling that sector exactly / nearly: the last bytes of the image are audio
        for n, chain in ((4026, [4]), (4025, [4]), (4000, [4]), (8122, [4, 5]), (8122, [5, 4]), (12218, [4, 5, 6])):
            spec = {"parts": [{"vols": [{"name": "VOL", "dir": [3], "files": [{"name": "SMP", "n": n, "chain": chain, "seq": 1}]}]}]}
            cases.append({"fmt": "akai", "spec": spec, "trailing": 0, "trail_kind": "zero", "keep_sectors": max(chain) + 1})
        # every sector count in a consecutive range (one small image + t trailing 2048-byte sectors): covers every
        # residue of the raw-sector count modulo anything up to the range length
        small = c01.one_file_spec(300, 0, 300)
        for t in range(0, 128 if self.quick else 512):
            cases.append({"fmt": "akai", "spec": small, "trailing": 2048 * t, "trail_kind": "junk" if t % 2 else "zero"})
        ro = list(itertools.chain(c02.sweep_chains(self.quick), c02.sweep_window(self.quick), c02.sweep_header(self.quick)))
        ro = ro[::12] if self.quick else ro[::2]
        rcases = []
        # images with performances that no volume references (the pseudo volume that collects them is built by a second scan
        # of the performance directory)
        orph = [c for c in c02.sweep_high_slots(self.quick) if c.get("flips") and "orphan" in str(c["flips"][0])]
        for c in orph[::max(1, len(orph) // (6 if self.quick else 24))]:
            rcases.append({"fmt": "roland", "model": c["model"], "trailing": 0, "trail_kind": "zero"})
        for i, c in enumerate(ro):
            rcases.append({"fmt": "roland", "model": c["model"], "trailing": [0, 1, 2047, 2048][i % 4], "trail_kind": "zero"})
        # Roland images that end 1..2048 bytes before the end of their last allocated cluster (odd- and even-numbered), the
        # audio of the last sample ending well before that: no container may make a difference
        for last in (2, 3, 4, 5):
            smp = {0: {"name": "HEAD", "chain": [last - 1] if last > 2 else [], "points": [0, 0, 200, 0, 9], "mode": 0, "seq": 1},
                   1: {"name": "TAIL", "chain": [last], "points": [0, 0, 3000, 0, 9], "mode": 0, "seq": 2}}
            if last == 2:
                del smp[0]
            for d in (1, 511, 512, 513, 1023, 1024, 1025, 2047, 2048):
                rcases.append({"fmt": "roland", "model": c02.simple_model(smp), "trailing": 0, "trail_kind": "zero", "drop_bytes": d})
        det = []
        modes = ["AUDIO", "MODE1/2352", "MODE2/2352", "audio", "mode1/2048"]
        for k in (1, 2, 3):
            for t in itertools.product(modes, repeat=k):
                if k == 3 and self.quick and t[0] != "AUDIO":
                    continue
                det.append({"fmt": "detect", "modes": list(t), "data": not all(m.upper() == "AUDIO" for m in t)})
        # sheets with further FILE entries after the one that holds the data track
        for first in (["MODE1/2352"], ["MODE2/2352"], ["mode1/2048"]):
            for more in (1, 2, 5):
                det.append({"fmt": "detect", "modes": first, "data": True, "more_files": more})
        # the bin's file name as a user may have chosen it (blanks, several dots, upper case, quotes' neighbours)
        for bn in ("my disc.bin", " disc .bin", "disc.v2.bin", "DISC.BIN", "disc", "a b  c.img", "d'isc.bin", "disc(1).bin"):
            for t in (["MODE1/2352"], ["AUDIO"], ["AUDIO", "MODE1/2352"], ["AUDIO", "AUDIO"]):
                det.append({"fmt": "detect", "modes": t, "data": not all(m.upper() == "AUDIO" for m in t), "bin_name": bn})
        # the sheet's own file name written the way other systems write it
        for nm in ("DISC.CUE", "Disc.Cue", "disc.CUE", "my disc.cue", "disc.v2.cue"):
            for k in (1, 2):
                for t in itertools.product(modes, repeat=k):
                    det.append({"fmt": "detect", "modes": list(t), "data": not all(m.upper() == "AUDIO" for m in t), "cue_name": nm})
        # long cue sheets, every length in a consecutive range: n titled audio tracks (then a data track / all audio) for
        # every n up to the 99 a disc can hold; k comment lines (61 bytes each) before the FILE line for every k
        for n in range(1, 99):
            det.append({"fmt": "detect", "modes": ["AUDIO"] * n + ["MODE1/2352"], "data": True, "titles": True})
            det.append({"fmt": "detect", "modes": ["AUDIO"] * (n + 1), "data": False, "titles": True})
        for k in list(range(1, 300 if self.quick else 1200)) + [5000, 20000]:
            det.append({"fmt": "detect", "modes": ["MODE1/2352"] if k % 2 else ["AUDIO", "AUDIO"], "data": bool(k % 2), "preamble": k})
        return self.chunk(cases, 8) + self.chunk(rcases, 2) + self.chunk(det, 40)

    def run_shard(self, shard, rep: Report):
        cases = [shard["replay_case"]] if "replay_case" in shard else shard["cases"]
        for case in cases:
            if case["fmt"] == "detect":
                ok, klass, detail = run_detect(case)
                rep.case(case, ok=ok, klass=klass, nontrivial=len(case["modes"]) > 1, detail=detail, sig="detect:" + klass)
                continue
            ok, klass, detail = run_case(case)
            rep.case(case, ok=ok, klass=klass, nontrivial=not klass.endswith(":0files"), detail=detail, sig=f"{case['fmt']}:{klass.split(':same')[0]}")
