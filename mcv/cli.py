"""./check <ID> [--tier quick|thorough] [--replay file] [--jobs n] | --setup | --list"""
import argparse
import importlib
import json
import os
import subprocess
import sys
import time

from mcv.engine import core
from mcv.engine import findings as findings_mod
from mcv.engine.core import Report

# (overridable so that exploratory runs against a patched worktree -- VERIF_REPO -- do not overwrite the evidence)
EVIDENCE_DIR = os.environ.get("VERIF_EVIDENCE_DIR") or os.path.join(core.VERIF, "evidence")
REPLAY_DIR = os.environ.get("VERIF_REPLAY_DIR") or os.path.join(core.VERIF, "replays")

ALL_IDS = ["C%02d" % i for i in range(1, 21)]


def load_check(cid, tier, seed):
    mod = importlib.import_module(f"mcv.checks.{cid.lower()}")
    return mod.Check(tier, seed)


def write_evidence(chk, rep, wall, n_viol, extra_cov=None):
    cov = {
        "evaluations": rep.evaluations,
        "distinct_nontrivial": rep.nontrivial,
        "rule": chk.rule,
        "samples": rep.samples[:6] or [{"note": "no sample recorded"}],
        "exhaustive": bool(chk.exhaustive),
        "outcome_classes": dict(rep.classes.most_common(40)),
        "n_outcome_classes": len(rep.classes),
        "shards": getattr(rep, "n_shards", 0),
    }
    if rep.states or rep.transitions or chk.level == "model_checking":
        cov["states"] = rep.states
        cov["transitions"] = rep.transitions
        cov["traces_validated_against_impl"] = rep.traces
    if rep.notes:
        cov["notes"] = dict(rep.notes)
    if rep.extra:
        cov["extra"] = rep.extra
    if extra_cov:
        cov.update(extra_cov)
    head, dirty = core.repo_state()
    ev = {
        "property_id": chk.id,
        "tier": chk.tier,
        "seed": chk.seed,
        "level": chk.level,
        "coverage": cov,
        "assumptions": list(chk.assumptions) + [f"ran against {core.REPO} HEAD={head} dirty={dirty}"],
        "wall_s": round(wall, 3),
        "violations": n_viol,
    }
    os.makedirs(EVIDENCE_DIR, exist_ok=True)
    path = os.path.join(EVIDENCE_DIR, f"{chk.id}.json")
    tmp = path + ".tmp"
    with open(tmp, "w") as f:
        json.dump(ev, f, indent=1, default=repr)
    os.replace(tmp, path)
    return path


def do_replay(cid, path, tier, seed):
    with open(path) as f:
        data = json.load(f)
    case = data["case"] if isinstance(data, dict) and "case" in data else data
    chk = load_check(cid, data.get("tier", tier) if isinstance(data, dict) else tier, seed)
    rep = Report(seed)
    try:
        import resource
        lim = core.mem_limit(4)
        resource.setrlimit(resource.RLIMIT_AS, (lim, lim))
    except Exception:
        pass
    if isinstance(case, dict) and set(case) == {"shard"}:
        # a violation that belongs to a whole shard (budget / memory exceeded outside a guarded case, dead worker)
        try:
            chk.run_shard(case["shard"], rep)
        except core.BudgetExceeded:
            rep.case(case, ok=False, klass="hang-outside-case", sig="hang-outside-case")
        except MemoryError:
            rep.case(case, ok=False, klass="memory-outside-case", sig="memory-outside-case")
    elif isinstance(data, dict) and data.get("whole_shard") is not None:
        # the violation needs the cases that ran before it in the same process: replay the whole shard
        chk.run_shard(data["whole_shard"], rep)
    else:
        chk.replay(case, rep)
    if rep.viol_count:
        for v in rep.violations:
            print("REPLAY-FAIL", json.dumps(v, default=repr)[:4000])
        print(f"replay: property={cid} violated (evaluations={rep.evaluations})")
        return 1
    print(f"replay: property={cid} held on replayed case (evaluations={rep.evaluations})")
    return 0


def confirm(cid, v, tier):
    """Replay a violation in a fresh process; returns (confirmed, path)."""
    os.makedirs(REPLAY_DIR, exist_ok=True)
    path = os.path.join(REPLAY_DIR, f"{cid}-{core.digest(v['case'])}.json")
    with open(path, "w") as f:
        json.dump({"property": cid, "tier": tier, "case": v["case"], "detail": v["detail"],
                   "sig": v["sig"]}, f, indent=1, default=repr)
    def run():
        try:
            r = subprocess.run([sys.executable, "-B", "-m", "mcv.cli", cid, "--replay", path,
                                "--tier", tier], cwd=core.VERIF, capture_output=True, text=True,
                               timeout=1800)
            died = r.returncode < 0 and v.get("sig") == "worker-died"
            return r.returncode == 1 or died, r.stdout[-2000:]
        except subprocess.TimeoutExpired:
            return True, "replay timed out (hang confirmed)"
    ok, out = run()
    if not ok and v.get("shard") is not None and "replay_case" not in v["shard"]:
        # not reproducible alone: replay the shard it occurred in (state carried over from earlier cases)
        with open(path, "w") as f:
            json.dump({"property": cid, "tier": tier, "case": v["case"], "detail": v["detail"], "sig": v["sig"],
                       "whole_shard": v["shard"]}, f, indent=1, default=repr)
        ok, out = run()
    return ok, path, out


def main(argv=None):
    ap = argparse.ArgumentParser()
    ap.add_argument("id", nargs="?")
    ap.add_argument("--tier", default=os.environ.get("VERIF_TIER", "quick"),
                    choices=["quick", "thorough"])
    ap.add_argument("--replay")
    ap.add_argument("--jobs", type=int, default=0)
    ap.add_argument("--setup", action="store_true")
    ap.add_argument("--list", action="store_true")
    a = ap.parse_args(argv)
    try:
        seed = int(os.environ.get("VERIF_SEED", "0") or 0)
    except ValueError:
        seed = 0

    if a.setup:
        from mcv import selftest
        return selftest.main()
    if a.list:
        print(" ".join(ALL_IDS))
        return 0
    cid = (a.id or "").upper()
    if cid not in ALL_IDS:
        print("usage: ./check <C01..C20> [--tier quick|thorough] [--replay file]", file=sys.stderr)
        return 2
    if a.replay:
        return do_replay(cid, a.replay, a.tier, seed)

    t0 = time.time()
    chk = load_check(cid, a.tier, seed)
    if a.jobs:
        os.environ["VERIF_JOBS"] = str(a.jobs)
    rep, errors = core.run_check(chk)
    if errors:
        for e, shard in errors[:3]:
            print(f"HARNESS-ERROR property={cid} shard={json.dumps(shard, default=repr)[:300]}\n{e}", file=sys.stderr)
        return 2
    try:
        chk.finalize(rep)
    except core.HarnessError as e:
        print(f"HARNESS-ERROR property={cid} {e}", file=sys.stderr)
        return 2

    known = findings_mod.load_open(cid)
    unlisted = []
    known_hit = {}
    for v in rep.violations:
        k = findings_mod.match(known, cid, v)
        if k is not None:
            known_hit[k["key"]] = k
        else:
            unlisted.append(v)
    # one confirmed replay per distinct signature, at most 6
    reported = 0
    seen_sig = set()
    unconfirmed = 0
    for v in unlisted:
        if v["sig"] in seen_sig:
            continue
        seen_sig.add(v["sig"])
        if reported >= 6:
            break
        ok, path, out = confirm(cid, v, a.tier)
        if ok:
            print(f"VIOLATION property={cid} replay={path}")
            print(f"  sig={v['sig']} detail={json.dumps(v['detail'], default=repr)[:600]}")
            reported += 1
        else:
            unconfirmed += 1
            print(f"UNCONFIRMED property={cid} sig={v['sig']} replay={path} (did not reproduce in a fresh process: harness nondeterminism)\n{out}", file=sys.stderr)
            try:
                os.remove(path)
            except OSError:
                pass
    for k in known_hit.values():
        print(f"KNOWN-FINDING: property={cid} {k['text']}")
    wall = time.time() - t0
    write_evidence(chk, rep, wall, rep.viol_count,
                   {"violation_signatures": dict(rep.viol_sigs)} if rep.viol_sigs else None)
    print(f"{cid} tier={a.tier} seed={seed} evaluations={rep.evaluations} nontrivial={rep.nontrivial} "
          f"classes={len(rep.classes)} states={rep.states} transitions={rep.transitions} "
          f"violations={rep.viol_count} wall={wall:.1f}s")
    if reported:
        return 1
    if unconfirmed:
        return 2
    return 0


if __name__ == "__main__":
    sys.exit(main())
