"""pyxlite -- a deliberately small translator from the Cython subset used by smpl_extract/filters/*.pyx to
plain Python, so that the check of C19 can execute the CURRENT source text although Cython is not installed.

Supported constructs (exactly what fir.pyx / iir.pyx use): cimport lines, @cython.* decorators, `cdef struct`,
`cdef class` with a struct member, cdef/def functions with C-typed arguments (typed memoryviews, pointers),
`cdef <type> name [= expr]` declarations, `<type> expr` casts, `&name`, malloc/free of double arrays.
Anything else raises Unsupported: the caller then falls back to the compiled kernels.  C integer semantics
(unsigned wrap, integer division) are NOT emulated, which is stated as a limit in DESIGN.md.
"""
import math
import re


class Unsupported(Exception):
    pass


class CArr(list):
    """stands for a malloc'ed block: always truthy (malloc(0) does not return NULL here)"""

    def __bool__(self):
        return True


def _cround(x):
    return float(math.floor(x + 0.5)) if x >= 0 else float(-math.floor(-x + 0.5))


def _cast_short(x):
    v = int(x)
    return ((v + 32768) % 65536) - 32768


PRELUDE = {
    "cround": _cround, "round_c": _cround, "trunc": lambda x: float(math.trunc(x)), "free": lambda p: None,
    "_cast_short": _cast_short, "_cast_double": float, "_cast_int": int, "_cast_size_t": int, "_cast_float": float,
    "_CArr": CArr,
}

CTYPES = r"(?:unsigned\s+)?(?:double|float|short|int|long|size_t|char|bint|void)"


def _join_continuations(lines):
    out, buf, depth = [], "", 0
    for l in lines:
        code = l.split("#", 1)[0] if "#" in l and "'" not in l and '"' not in l else l
        if buf:
            if buf.rstrip().endswith("\\"):
                buf = buf.rstrip()[:-1].rstrip()
            buf += " " + l.strip()
        else:
            buf = l.rstrip("\n")
        depth += code.count("(") + code.count("[") + code.count("{") - code.count(")") - code.count("]") - code.count("}")
        if depth <= 0 and not buf.rstrip().endswith("\\"):
            out.append(buf)
            buf, depth = "", 0
    if buf:
        out.append(buf)
    return out


def _split_args(s):
    args, cur, depth = [], "", 0
    for ch in s:
        if ch in "([{":
            depth += 1
        elif ch in ")]}":
            depth -= 1
        if ch == "," and depth == 0:
            args.append(cur)
            cur = ""
        else:
            cur += ch
    if cur.strip():
        args.append(cur)
    return [a.strip() for a in args]


def _arg_name(a, structs):
    if not a or a in ("self", "*args", "**kwargs") or a.startswith("*"):
        return a
    default = ""
    if "=" in a:
        a, default = a.split("=", 1)
        a, default = a.strip(), " = " + default.strip()
    head = a.split(":", 1)[0].strip() if re.match(r"^\w+\s*:", a) else None
    if head is not None:                       # python annotation `x: T`
        return a + default
    toks = a.replace("*", " ").split()
    if len(toks) == 1:
        return toks[0] + default
    first = toks[0]
    if re.fullmatch(CTYPES, first) or "[" in a or first in structs or first == "unsigned":
        return toks[-1] + default
    raise Unsupported(f"argument {a!r}")


def _casts(line):
    out, i = "", 0
    pat = re.compile(r"<\s*(short|double|int|size_t|float)\s*>")
    while True:
        m = pat.search(line, i)
        if not m:
            out += line[i:]
            return out
        out += line[i:m.start()]
        j = m.end()
        while j < len(line) and line[j] == " ":
            j += 1
        k = j
        if k < len(line) and line[k] == "(":
            depth = 0
            while k < len(line):
                if line[k] == "(":
                    depth += 1
                elif line[k] == ")":
                    depth -= 1
                    if depth == 0:
                        k += 1
                        break
                k += 1
        else:
            while k < len(line) and (line[k].isalnum() or line[k] in "_."):
                k += 1
            while k < len(line) and line[k] in "([":
                close = ")" if line[k] == "(" else "]"
                depth = 0
                while k < len(line):
                    if line[k] in "([":
                        depth += 1
                    elif line[k] in ")]":
                        depth -= 1
                        if depth == 0:
                            k += 1
                            break
                    k += 1
        atom = line[j:k]
        if not atom:
            raise Unsupported("cast without operand: " + line)
        out += f"_cast_{m.group(1)}({_casts(atom)})"
        i = k


def translate(text):
    lines = _join_continuations(text.splitlines())
    structs = set(re.findall(r"^cdef\s+struct\s+(\w+)\s*:", text, flags=re.M))
    out = []
    i = 0
    pending_class_members = None
    while i < len(lines):
        l = lines[i]
        s = l.strip()
        ind = l[:len(l) - len(l.lstrip())]
        i += 1
        if not s or s.startswith("#"):
            out.append(l)
            continue
        if "cimport" in s:
            continue
        if s.startswith("@cython."):
            continue
        m = re.match(r"cdef\s+struct\s+(\w+)\s*:", s)
        if m:
            out.append(f"{ind}class {m.group(1)}:")
            out.append(f"{ind}    pass")
            while i < len(lines) and (not lines[i].strip() or len(lines[i]) - len(lines[i].lstrip()) > len(ind)):
                i += 1
            continue
        m = re.match(r"cdef\s+class\s+(\w+)\s*(\(.*\))?\s*:", s)
        if m:
            out.append(f"{ind}class {m.group(1)}{m.group(2) or ''}:")
            pending_class_members = (len(ind), [])
            continue
        # function headers
        m = re.match(r"(cdef|cpdef|def)\s+(.*?)(\w+)\s*\((.*)\)\s*(->\s*[^:]+)?:\s*$", s)
        if m and (m.group(1) != "def" or True):
            kind, rettype, name, args = m.group(1), m.group(2).strip(), m.group(3), m.group(4)
            if kind == "def" and rettype:
                raise Unsupported("def with return type: " + s)
            names = [_arg_name(a, structs) for a in _split_args(args)]
            if name == "__cinit__":
                name = "__init__"
            out.append(f"{ind}def {name}({', '.join(names)}){m.group(5) or ''}:")
            if name == "__init__" and pending_class_members and pending_class_members[1]:
                for member, typ in pending_class_members[1]:
                    out.append(f"{ind}    self.{member} = {typ}()" if typ in structs else f"{ind}    self.{member} = 0")
            continue
        # cdef declarations
        if s.startswith("cdef "):
            body = s[5:].strip()
            lhs, eq, rhs = body.partition("=")
            toks = lhs.replace("*", " * ").split()
            name = toks[-1]
            typ = toks[0]
            if pending_class_members and len(ind) > pending_class_members[0] and not eq \
                    and not any(x.strip().startswith("def ") for x in out[-1:]):
                # member declaration directly in a cdef class body
                if len(ind) == pending_class_members[0] + 4 and not _inside_function(out, len(ind)):
                    pending_class_members[1].append((name, typ))
                    continue
            if not re.fullmatch(r"\w+", name):
                raise Unsupported("declaration: " + s)
            if eq:
                r = rhs.strip()
                mm = re.match(r"<\s*double\s*\*\s*>\s*malloc\(\s*(.*?)\s*\*\s*sizeof\(\s*double\s*\)\s*\)\s*$", r)
                if mm:
                    out.append(f"{ind}{name} = _CArr([0.0] * int({mm.group(1)}))")
                else:
                    out.append(f"{ind}{name} = {_fix_expr(r)}")
            else:
                out.append(f"{ind}{name} = {typ}()" if typ in structs else f"{ind}{name} = 0")
            continue
        out.append(ind + _fix_expr(s))
    return "\n".join(out) + "\n"


def _inside_function(out, indent):
    for prev in reversed(out):
        if not prev.strip():
            continue
        pind = len(prev) - len(prev.lstrip())
        if pind < indent:
            return prev.strip().startswith("def ")
    return False


def _fix_expr(s):
    s = _casts(s)
    s = re.sub(r"(?<![\w&])&(\w+)", r"\1", s)
    if "sizeof(" in s or "malloc(" in s:
        raise Unsupported("allocation: " + s)
    if re.search(r"<\s*\w+\s*\*?\s*>", s) and "<" in s and re.search(r"<\s*(short|double|int|size_t|float)\s*\*\s*>", s):
        raise Unsupported("pointer cast: " + s)
    return s


def load(text, name="<pyx>"):
    """translate + exec; returns the module namespace"""
    src = translate(text)
    ns = dict(PRELUDE)
    exec(compile(src, name, "exec"), ns)
    return ns, src
