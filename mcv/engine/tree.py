"""Driving the tool's public seams: determine_image_type / ls_action / export_samples_to_wav."""
import io
import os
import re

from . import core
from .core import captured_stdout, guarded, scratch_dir


def open_image(src):
    """src: bytes (in-memory image) or str (path). Returns the library's image object."""
    from smpl_extract.actions import determine_image_type
    if isinstance(src, (bytes, bytearray)):
        return determine_image_type(io.BytesIO(bytes(src)))
    return determine_image_type(src)


def ls(image_or_path, path=""):
    from smpl_extract.actions import ls_action
    with captured_stdout() as buf:
        ls_action(image_or_path, path)
    return buf.getvalue()


def walk_files(root):
    out = {}
    for dp, dn, fn in os.walk(root):
        for f in fn:
            full = os.path.join(dp, f)
            rel = os.path.relpath(full, root).replace(os.sep, "/")
            with open(full, "rb") as fh:
                out[rel] = fh.read()
    return out


_EXPORTED = re.compile(r"^Exported (.*)$")


def export(image_or_path, dest=None):
    """Returns (stdout, {relpath: bytes}, [reported relpaths]). dest is created inside a scratch dir
    when None and removed afterwards."""
    from smpl_extract.actions import export_samples_to_wav

    def run(d):
        with captured_stdout() as buf:
            try:
                export_samples_to_wav(image_or_path, d)
            except BaseException as e:
                e._partial_stdout = buf.getvalue()
                e._partial_files = walk_files(d) if os.path.isdir(d) else {}
                raise
        out = buf.getvalue()
        files = walk_files(d) if os.path.isdir(d) else {}
        reported = [m.group(1) for m in (_EXPORTED.match(l) for l in out.splitlines()) if m]
        return out, files, reported

    if dest is not None:
        return run(dest)
    with scratch_dir("exp") as d:
        return run(os.path.join(d, "dest"))


def _list_levels(img, depth):
    """ls of the root and of every item reachable through the printed names down to `depth` levels (answers ignored)"""
    def names_of(out):
        lines = out.split("\n")
        if len(lines) < 2 or not lines[0].startswith("Item"):
            return []
        w = lines[0].find("Type")
        return [l[:w - 1].rstrip() for l in lines[2:] if l.strip()] if w > 0 else []
    frontier = [""]
    for _ in range(depth + 1):
        nxt = []
        for p in frontier:
            try:
                out = ls(img, p)
            except Exception:   # noqa -- what ls answers is not this helper's business
                continue
            for n in names_of(out)[:6]:
                if n.strip():
                    nxt.append(n if p == "" else p + "/" + n)
        frontier = nxt[:24]


def full_run(src, cpu_s=20.0, ls_paths=("",), again=False):
    """Open + ls at given paths + export, guarded.  Returns dict with status/exception/outputs.
    again=True: the export runs on an image OBJECT and is repeated on that same object; res["again"] describes the
    difference when the second run does not write and report what the first did (an export is an export)."""
    res = {"status": "ok", "ls": {}, "files": {}, "reported": [], "stdout": "", "exc": None, "again": None}

    def go():
        img = open_image(src) if not isinstance(src, str) else src
        for p in ls_paths:
            res["ls"][p] = ls(img, p)
        if again:
            obj = open_image(src)
            out, files, reported = export(obj)
        elif isinstance(src, str):
            out, files, reported = export(src)
        else:
            out, files, reported = export(open_image(src))
        res["stdout"], res["files"], res["reported"] = out, files, reported
        if again:
            out2, files2, reported2 = export(obj)
            if files2 != files or sorted(reported2) != sorted(reported):
                diff = sorted(set(files) ^ set(files2)) or [p for p in files if files2.get(p) != files[p]]
                res["again"] = {"which": "second export of one object", "paths": diff[:4], "first": len(files), "second": len(files2),
                                "sizes": [(p, len(files[p]), len(files2.get(p, b""))) for p in diff[:2] if p in files]}
                return
            # ... and an export from another object whose root and first two levels were LISTED before
            obj3 = open_image(src)
            _list_levels(obj3, 2)
            out3, files3, reported3 = export(obj3)
            if files3 != files or sorted(reported3) != sorted(reported):
                diff = sorted(set(files) ^ set(files3)) or [p for p in files if files3.get(p) != files[p]]
                res["again"] = {"which": "export of an object that was listed first", "paths": diff[:4], "first": len(files),
                                "second": len(files3), "sizes": [(p, len(files[p]), len(files3.get(p, b""))) for p in diff[:2] if p in files]}

    st, val = guarded(go, cpu_s)
    if st == "hang":
        res["status"] = "hang"
    elif st == "exc":
        res["status"] = "exc"
        res["exc"] = val
        res["files"] = getattr(val, "_partial_files", {})
        out = getattr(val, "_partial_stdout", "")
        res["stdout"] = out
        res["reported"] = [m.group(1) for m in (_EXPORTED.match(l) for l in out.splitlines()) if m]
    return res


def compare_export(expected, files, reported):
    """expected: {relpath: (channels, rate, pcm)}; files: {relpath: wav bytes}.
    Returns list of mismatch strings (empty = equal)."""
    from mcv.ref import riff
    errs = []
    if sorted(expected) != sorted(files):
        missing = sorted(set(expected) - set(files))
        extra = sorted(set(files) - set(expected))
        errs.append(f"path sets differ: missing={missing[:4]} extra={extra[:4]}")
    if sorted(reported) != sorted(files):
        errs.append(f"Exported lines {sorted(reported)[:4]} != files on disk {sorted(files)[:4]}")
    for p in sorted(set(expected) & set(files)):
        ch, rate, pcm = expected[p]
        w = riff.validate(files[p])
        if w.errors:
            errs.append(f"{p}: invalid wav: {w.errors[:2]}")
            continue
        if w.fmt["channels"] != ch or w.fmt["rate"] != rate:
            errs.append(f"{p}: fmt channels/rate {w.fmt['channels']}/{w.fmt['rate']} != {ch}/{rate}")
        if w.data != pcm:
            k = next((i for i in range(min(len(pcm), len(w.data))) if pcm[i] != w.data[i]), min(len(pcm), len(w.data)))
            errs.append(f"{p}: pcm differs (expected {len(pcm)} bytes, got {len(w.data)}, first difference at byte {k})")
    return errs


def channel_map(files, pcms):
    """files: {relpath: wav bytes}; pcms: {sample key: pcm bytes (16-bit LE mono)}.
    Returns (occurrences, errors): occurrences[sample key] = [(relpath, channel index, n_channels)...];
    errors: invalid wavs / channels that hold no known sample."""
    from mcv.ref import riff
    occ = {k: [] for k in pcms}
    errs = []
    for path in sorted(files):
        w = riff.validate(files[path])
        if w.errors:
            errs.append(f"{path}: invalid wav: {w.errors[:2]}")
            continue
        chans = riff.split_channels(w.data, w.fmt["channels"])
        for ci, c in enumerate(chans):
            hit = [k for k, p in pcms.items() if len(c) >= len(p) and c[:len(p)] == p and len(p) > 0]
            if not hit:
                errs.append(f"{path}: channel {ci} ({len(c)} bytes) holds no sample of the directory")
            for k in hit:
                occ[k].append((path, ci, w.fmt["channels"]))
    return occ, errs
