"""Engine core: sharded exhaustive exploration with worker pool, watchdog, aggregation.

A check is a subclass of CheckBase.  It enumerates a finite space as a list of *shards*
(JSON-able descriptors); a worker runs one shard by enumerating its cases and calling
`rep.case(...)` for every executed case.  Nothing here samples: every case of every shard is
executed, counts are measured.
"""
import collections
import contextlib
import hashlib
import io
import json
import multiprocessing as mp
import os
import resource
import shutil
import signal
import subprocess
import sys
import tempfile
import time
import traceback

REPO = os.environ.get("VERIF_REPO", "/repo")
VERIF = os.path.dirname(os.path.dirname(os.path.dirname(os.path.abspath(__file__))))
if REPO not in sys.path:
    sys.path.insert(0, REPO)

SCRATCH_ROOT = "/dev/shm" if os.path.isdir("/dev/shm") and os.access("/dev/shm", os.W_OK) \
    else tempfile.gettempdir()


class BudgetExceeded(BaseException):
    """Raised asynchronously (CPU interval timer) or by step proxies: non-termination."""


class HarnessError(Exception):
    """A bug of the harness, never a verdict."""


def digest(obj) -> str:
    s = json.dumps(obj, sort_keys=True, default=repr)
    return hashlib.sha1(s.encode()).hexdigest()[:12]


# ----------------------------------------------------------------------------- watchdog
_armed = [False]


def _on_timer(signum, frame):
    if _armed[0]:
        raise BudgetExceeded("cpu budget exceeded")


@contextlib.contextmanager
def cpu_budget(seconds: float):
    """CPU-time budget for the code under test.  The timer re-fires every 50 ms after the
    first expiry because the library contains bare `except:` clauses that can swallow one
    asynchronous exception."""
    signal.signal(signal.SIGPROF, _on_timer)
    _armed[0] = True
    signal.setitimer(signal.ITIMER_PROF, seconds, 0.05)
    try:
        yield
    finally:
        _armed[0] = False
        signal.setitimer(signal.ITIMER_PROF, 0, 0)


def guarded(fn, seconds=10.0):
    """Run fn() under the CPU budget. Returns ('ok', value) | ('exc', exception) | ('hang', None)."""
    try:
        with cpu_budget(seconds):
            return ("ok", fn())
    except BudgetExceeded:
        return ("hang", None)
    except RecursionError as e:
        return ("exc", e)
    except MemoryError as e:
        return ("hang", e)
    except Exception as e:  # noqa
        return ("exc", e)


def exc_sig(e) -> str:
    """Short signature of an exception: type and the innermost smpl_extract frame."""
    tb = traceback.extract_tb(e.__traceback__)
    where = ""
    for fr in reversed(tb):
        if "smpl_extract" in fr.filename:
            where = f"{os.path.basename(fr.filename)}:{fr.name}"
            break
    return f"{type(e).__name__}@{where}"


@contextlib.contextmanager
def scratch_dir(prefix="mcv"):
    d = tempfile.mkdtemp(prefix=prefix + "-", dir=SCRATCH_ROOT)
    try:
        yield d
    finally:
        shutil.rmtree(d, ignore_errors=True)


@contextlib.contextmanager
def captured_stdout():
    buf = io.StringIO()
    with contextlib.redirect_stdout(buf):
        yield buf


# ----------------------------------------------------------------------------- report
class Report:
    """Per-shard aggregate, merged in the parent."""
    MAX_VIOL = 40
    MAX_SAMPLES = 3

    def __init__(self, seed=0):
        self.evaluations = 0
        self.nontrivial = 0
        self.classes = collections.Counter()
        self.violations = []       # list of dict(case=..., detail=..., sig=...)
        self.viol_count = 0
        self.viol_sigs = collections.Counter()
        self.samples = []
        self.states = 0
        self.transitions = 0
        self.traces = 0
        self.notes = collections.Counter()
        self.extra = {}
        self.seed = seed
        self._nt_keys = set()

    def case(self, case, ok=True, klass="ok", nontrivial=False, detail=None, sig=None,
             nt_key=None):
        self.evaluations += 1
        self.classes[klass] += 1
        if nontrivial:
            if nt_key is None:
                self.nontrivial += 1
            elif nt_key not in self._nt_keys:
                self._nt_keys.add(nt_key)
                self.nontrivial += 1
        if len(self.samples) < self.MAX_SAMPLES and (self.evaluations + self.seed) % 7 == 1:
            self.samples.append(case)
        if not ok:
            self.viol_count += 1
            sig = sig or klass
            self.viol_sigs[sig] += 1
            # keep the first occurrences of each signature (smallest first by enumeration order)
            if self.viol_sigs[sig] <= 2 and len(self.violations) < self.MAX_VIOL:
                self.violations.append({"case": case, "detail": detail, "sig": sig})

    def merge(self, other):
        self.evaluations += other.evaluations
        self.nontrivial += other.nontrivial
        self.classes.update(other.classes)
        self.viol_count += other.viol_count
        self.viol_sigs.update(other.viol_sigs)
        self.violations.extend(other.violations)
        for s in other.samples:
            if len(self.samples) < 6:
                self.samples.append(s)
        self.states += other.states
        self.transitions += other.transitions
        self.traces += other.traces
        self.notes.update(other.notes)
        for k, v in other.extra.items():
            if isinstance(v, (int, float)) and isinstance(self.extra.get(k, 0), (int, float)):
                self.extra[k] = self.extra.get(k, 0) + v
            else:
                self.extra.setdefault(k, v)


class CheckBase:
    id = "C00"
    level = "exploration"
    title = ""
    rule = ""
    assumptions = []
    exhaustive = True
    case_cpu_s = 20.0

    def __init__(self, tier="quick", seed=0):
        self.tier = tier
        self.seed = seed
        self.quick = tier == "quick"

    # -- to override
    def shards(self):
        """Return list of JSON-able shard descriptors (deterministic)."""
        raise NotImplementedError

    def run_shard(self, shard, rep: Report):
        raise NotImplementedError

    def replay(self, case, rep: Report):
        """Re-execute one case (from a replay file) -- default: a shard made of that case."""
        self.run_shard({"replay_case": case}, rep)

    def finalize(self, rep: Report):
        """Hook executed in the parent after merging (vacuity alarms etc)."""
        return

    # helpers
    def chunk(self, cases, size):
        cases = list(cases)
        return [{"cases": cases[i:i + size]} for i in range(0, len(cases), size)]


def _worker(args):
    cls_mod, cls_name, tier, seed, shard = args
    import importlib
    mod = importlib.import_module(cls_mod)
    chk = getattr(mod, cls_name)(tier, seed)
    rep = Report(seed)
    try:
        resource.setrlimit(resource.RLIMIT_AS, (6 << 30, 6 << 30))
    except Exception:
        pass
    try:
        chk.run_shard(shard, rep)
    except BudgetExceeded:
        rep.case({"shard": shard}, ok=False, klass="hang-outside-case", detail="budget exceeded outside a guarded case", sig="hang-outside-case")
    except Exception as e:  # harness bug
        return ("harness_error", f"{type(e).__name__}: {e}\n{traceback.format_exc()}", shard)
    rep._nt_keys = set()
    if rep.violations:
        # kept for the fallback replay of the whole shard (violations that need earlier cases of the same process)
        for v in rep.violations:
            v["shard"] = shard
    return ("ok", rep, shard)


def run_check(chk: CheckBase, jobs=None):
    """Run all shards on a pool; returns merged Report, harness errors list."""
    jobs = jobs or int(os.environ.get("VERIF_JOBS", "0")) or min(16, os.cpu_count() or 1)
    shards = chk.shards()
    # seed only rotates the order in which shards are handed to workers
    if shards and chk.seed:
        k = chk.seed % len(shards)
        shards = shards[k:] + shards[:k]
    total = Report(chk.seed)
    errors = []
    args = [(type(chk).__module__, type(chk).__name__, chk.tier, chk.seed, s) for s in shards]
    if jobs <= 1 or len(shards) <= 1:
        results = map(_worker, args)
        for r in results:
            _collect(r, total, errors)
    else:
        ctx = mp.get_context("fork")
        with ctx.Pool(min(jobs, len(shards)), maxtasksperchild=None) as pool:
            for r in pool.imap_unordered(_worker, args, chunksize=1):
                _collect(r, total, errors)
    total.n_shards = len(shards)
    return total, errors


def _collect(r, total, errors):
    if r[0] == "ok":
        total.merge(r[1])
    else:
        errors.append((r[1], r[2]))


def repo_state():
    try:
        head = subprocess.run(["git", "-C", REPO, "rev-parse", "HEAD"], capture_output=True,
                              text=True, timeout=20).stdout.strip()
        dirty = subprocess.run(["git", "-C", REPO, "status", "--porcelain", "--untracked-files=no"],
                               capture_output=True, text=True, timeout=20).stdout.strip()
        return head, bool(dirty)
    except Exception:
        return "unknown", False
