"""Engine core: sharded exhaustive exploration with worker pool, watchdog, aggregation.

A check is a subclass of CheckBase.  It enumerates a finite space as a list of *shards*
(JSON-able descriptors); a worker runs one shard by enumerating its cases and calling
`rep.case(...)` for every executed case.  Nothing here samples: every case of every shard is
executed, counts are measured.
"""
import collections
import contextlib
import hashlib
import io
import json
import multiprocessing as mp
import os
import resource
import shutil
import signal
import subprocess
import sys
import tempfile
import time
import traceback

REPO = os.environ.get("VERIF_REPO", "/repo")
VERIF = os.path.dirname(os.path.dirname(os.path.dirname(os.path.abspath(__file__))))
if REPO not in sys.path:
    sys.path.insert(0, REPO)

SCRATCH_ROOT = "/dev/shm" if os.path.isdir("/dev/shm") and os.access("/dev/shm", os.W_OK) \
    else tempfile.gettempdir()


class BudgetExceeded(BaseException):
    """Raised asynchronously (CPU interval timer) or by step proxies: non-termination."""


class HarnessError(Exception):
    """A bug of the harness, never a verdict."""


def digest(obj) -> str:
    s = json.dumps(obj, sort_keys=True, default=repr)
    return hashlib.sha1(s.encode()).hexdigest()[:12]


# ----------------------------------------------------------------------------- watchdog
_armed = [False]


def _on_timer(signum, frame):
    if _armed[0]:
        raise BudgetExceeded("cpu budget exceeded")


@contextlib.contextmanager
def cpu_budget(seconds: float):
    """CPU-time budget for the code under test.  The timer re-fires every 50 ms after the
    first expiry because the library contains bare `except:` clauses that can swallow one
    asynchronous exception."""
    signal.signal(signal.SIGPROF, _on_timer)
    _armed[0] = True
    signal.setitimer(signal.ITIMER_PROF, seconds, 0.05)
    try:
        yield
    finally:
        _armed[0] = False
        signal.setitimer(signal.ITIMER_PROF, 0, 0)


_HANGS = [0]      # budget overruns seen by this worker process
HANG_CAP = 6


def guarded(fn, seconds=10.0):
    """Run fn() under the CPU budget. Returns ('ok', value) | ('exc', exception) | ('hang', None).
    Memory exhaustion (RLIMIT_AS) counts as 'hang'; the exception (whose traceback pins the frames
    holding the memory) is dropped and the garbage collected before returning."""
    if _HANGS[0] >= HANG_CAP:
        # this process has already met several runs that never finished: the verdict of the check is decided (every check
        # treats a hang as a violation); do not spend the full budget on each of the possibly thousands of further cases
        seconds = min(seconds, 1.0)
    try:
        with cpu_budget(seconds):
            return ("ok", fn())
    except BudgetExceeded:
        _HANGS[0] += 1
        return ("hang", None)
    except RecursionError as e:
        return ("exc", e)
    except MemoryError:
        pass
    except Exception as e:  # noqa
        return ("exc", e)
    import gc
    gc.collect()
    return ("hang", None)


def exc_sig(e) -> str:
    """Short signature of an exception: type and the innermost smpl_extract frame."""
    tb = traceback.extract_tb(e.__traceback__)
    where = ""
    for fr in reversed(tb):
        if "smpl_extract" in fr.filename:
            where = f"{os.path.basename(fr.filename)}:{fr.name}"
            break
    return f"{type(e).__name__}@{where}"


@contextlib.contextmanager
def scratch_dir(prefix="mcv"):
    d = tempfile.mkdtemp(prefix=prefix + "-", dir=SCRATCH_ROOT)
    try:
        yield d
    finally:
        shutil.rmtree(d, ignore_errors=True)


@contextlib.contextmanager
def captured_stdout():
    buf = io.StringIO()
    with contextlib.redirect_stdout(buf):
        yield buf


# ----------------------------------------------------------------------------- report
class Report:
    """Per-shard aggregate, merged in the parent."""
    MAX_VIOL = 40
    MAX_SAMPLES = 3

    def __init__(self, seed=0):
        self.evaluations = 0
        self.nontrivial = 0
        self.classes = collections.Counter()
        self.violations = []       # list of dict(case=..., detail=..., sig=...)
        self.viol_count = 0
        self.viol_sigs = collections.Counter()
        self.samples = []
        self.states = 0
        self.transitions = 0
        self.traces = 0
        self.notes = collections.Counter()
        self.extra = {}
        self.seed = seed
        self._nt_keys = set()

    def case(self, case, ok=True, klass="ok", nontrivial=False, detail=None, sig=None,
             nt_key=None):
        self.evaluations += 1
        self.classes[klass] += 1
        if nontrivial:
            if nt_key is None:
                self.nontrivial += 1
            elif nt_key not in self._nt_keys:
                self._nt_keys.add(nt_key)
                self.nontrivial += 1
        if len(self.samples) < self.MAX_SAMPLES and (self.evaluations + self.seed) % 7 == 1:
            self.samples.append(case)
        if not ok:
            self.viol_count += 1
            sig = sig or klass
            self.viol_sigs[sig] += 1
            # keep the first occurrences of each signature (smallest first by enumeration order)
            if self.viol_sigs[sig] <= 2 and len(self.violations) < self.MAX_VIOL:
                self.violations.append({"case": case, "detail": detail, "sig": sig})

    def merge(self, other):
        self.evaluations += other.evaluations
        self.nontrivial += other.nontrivial
        self.classes.update(other.classes)
        self.viol_count += other.viol_count
        self.viol_sigs.update(other.viol_sigs)
        self.violations.extend(other.violations)
        for s in other.samples:
            if len(self.samples) < 6:
                self.samples.append(s)
        self.states += other.states
        self.transitions += other.transitions
        self.traces += other.traces
        self.notes.update(other.notes)
        for k, v in other.extra.items():
            if isinstance(v, (int, float)) and isinstance(self.extra.get(k, 0), (int, float)):
                self.extra[k] = self.extra.get(k, 0) + v
            else:
                self.extra.setdefault(k, v)


class CheckBase:
    id = "C00"
    level = "exploration"
    title = ""
    rule = ""
    assumptions = []
    exhaustive = True
    case_cpu_s = 20.0

    def __init__(self, tier="quick", seed=0):
        self.tier = tier
        self.seed = seed
        self.quick = tier == "quick"

    # -- to override
    def shards(self):
        """Return list of JSON-able shard descriptors (deterministic)."""
        raise NotImplementedError

    def run_shard(self, shard, rep: Report):
        raise NotImplementedError

    def replay(self, case, rep: Report):
        """Re-execute one case (from a replay file) -- default: a shard made of that case."""
        self.run_shard({"replay_case": case}, rep)

    def finalize(self, rep: Report):
        """Hook executed in the parent after merging (vacuity alarms etc)."""
        return

    # helpers
    def chunk(self, cases, size):
        cases = list(cases)
        return [{"cases": cases[i:i + size]} for i in range(0, len(cases), size)]


def mem_limit(jobs):
    """Address-space limit per worker: all workers together stay below ~60 % of the machine's
    memory (a change that makes the code under test allocate without bound must end in MemoryError
    inside the worker, not in the kernel's OOM killer)."""
    try:
        total = os.sysconf("SC_PAGE_SIZE") * os.sysconf("SC_PHYS_PAGES")
    except (ValueError, OSError):
        total = 16 << 30
    return int(max(1 << 30, min(6 << 30, 0.6 * total / max(1, jobs))))


def _worker(args, limit=6 << 30):
    cls_mod, cls_name, tier, seed, shard = args
    import importlib
    mod = importlib.import_module(cls_mod)
    chk = getattr(mod, cls_name)(tier, seed)
    rep = Report(seed)
    try:
        resource.setrlimit(resource.RLIMIT_AS, (limit, limit))
    except Exception:
        pass
    try:
        chk.run_shard(shard, rep)
    except BudgetExceeded:
        rep.case({"shard": shard}, ok=False, klass="hang-outside-case", detail="budget exceeded outside a guarded case", sig="hang-outside-case")
    except MemoryError:
        import gc
        gc.collect()
        rep.case({"shard": shard}, ok=False, klass="memory-outside-case", detail="memory limit exceeded outside a guarded case", sig="memory-outside-case")
    except Exception as e:  # harness bug
        return ("harness_error", f"{type(e).__name__}: {e}\n{traceback.format_exc()}", shard)
    rep._nt_keys = set()
    if rep.violations:
        # kept for the fallback replay of the whole shard (violations that need earlier cases of the same process)
        for v in rep.violations:
            v["shard"] = shard
    return ("ok", rep, shard)


def _child_loop(conn, limit):
    """Worker process: receives task tuples, answers with result tuples, until None arrives."""
    import gc
    signal.signal(signal.SIGINT, signal.SIG_IGN)
    while True:
        try:
            task = conn.recv()
        except (EOFError, OSError):
            break
        if task is None:
            break
        idx, args = task
        try:
            res = _worker(args, limit)
        except BaseException as e:  # noqa -- never let a worker die silently
            res = ("harness_error", f"{type(e).__name__}: {e}\n{traceback.format_exc()}", args[4])
        for attempt in range(3):
            try:
                conn.send((idx, res))
                break
            except MemoryError:
                gc.collect()
                if attempt == 1:
                    res = ("harness_error", "MemoryError while sending the shard result", args[4])
    os._exit(0)


class _Proc:
    def __init__(self, ctx, limit):
        self.parent_conn, child_conn = ctx.Pipe()
        self.p = ctx.Process(target=_child_loop, args=(child_conn, limit), daemon=True)
        self.p.start()
        child_conn.close()
        self.task = None        # index of the shard in flight


def run_check(chk: CheckBase, jobs=None):
    """Run all shards on a pool of forked workers; returns merged Report, harness errors list.
    A worker that dies (killed, segfault) does not stall the run: its shard is run once more in a fresh
    worker; a second death is a violation for checks whose property bounds resources (death_is_violation),
    a harness error otherwise."""
    from multiprocessing.connection import wait
    jobs = jobs or int(os.environ.get("VERIF_JOBS", "0")) or min(16, os.cpu_count() or 1)
    shards = chk.shards()
    # seed only rotates the order in which shards are handed to workers
    if shards and chk.seed:
        k = chk.seed % len(shards)
        shards = shards[k:] + shards[:k]
    total = Report(chk.seed)
    errors = []
    args = [(type(chk).__module__, type(chk).__name__, chk.tier, chk.seed, s) for s in shards]
    if jobs <= 1 or len(shards) <= 1:
        for a in args:
            _collect(_worker(a, mem_limit(1)), total, errors)
        total.n_shards = len(shards)
        return total, errors
    ctx = mp.get_context("fork")
    n = min(jobs, len(shards))
    limit = mem_limit(n)
    procs = [_Proc(ctx, limit) for _ in range(n)]
    pending = collections.deque(range(len(args)))
    deaths = collections.Counter()
    done = 0

    def feed(pr):
        pr.task = None
        while pending:
            i = pending.popleft()
            try:
                pr.parent_conn.send((i, args[i]))
                pr.task = i
                return
            except OSError:     # the worker is gone (it had no shard in flight): replace it
                pending.appendleft(i)
                procs.remove(pr)
                pr = _Proc(ctx, limit)
                procs.append(pr)

    for pr in procs:
        feed(pr)
    while done < len(args):
        busy = [pr for pr in procs if pr.task is not None]
        if not busy:
            break
        ready = wait([pr.parent_conn for pr in busy] + [pr.p.sentinel for pr in busy])
        for pr in busy:
            res = None
            if pr.parent_conn in ready:
                try:
                    idx, res = pr.parent_conn.recv()
                except (EOFError, OSError):
                    res = None      # end of file: the worker is gone
            if res is not None:
                _collect(res, total, errors)
                done += 1
                feed(pr)
            elif pr.parent_conn in ready or pr.p.sentinel in ready:
                i = pr.task
                pr.p.join(5)
                code = pr.p.exitcode
                deaths[i] += 1
                total.notes["worker_deaths"] += 1
                procs.remove(pr)
                new = _Proc(ctx, limit)
                procs.append(new)
                if deaths[i] <= 1:
                    pending.appendleft(i)
                else:
                    done += 1
                    if getattr(chk, "death_is_violation", False):
                        r = Report(chk.seed)
                        r.case({"shard": shards[i]}, ok=False, klass="worker-died", sig="worker-died",
                               detail={"observed": f"the process running this shard died twice (exit code {code})"})
                        for v in r.violations:
                            v["shard"] = shards[i]
                        total.merge(r)
                    else:
                        errors.append((f"worker died twice (exit code {code}) while running a shard", shards[i]))
                feed(new)
    for pr in procs:
        try:
            pr.parent_conn.send(None)
        except Exception:
            pass
    for pr in procs:
        pr.p.join(2)
        if pr.p.is_alive():
            pr.p.kill()
    total.n_shards = len(shards)
    return total, errors


def _collect(r, total, errors):
    if r[0] == "ok":
        total.merge(r[1])
    else:
        errors.append((r[1], r[2]))


def repo_state():
    try:
        head = subprocess.run(["git", "-C", REPO, "rev-parse", "HEAD"], capture_output=True,
                              text=True, timeout=20).stdout.strip()
        dirty = subprocess.run(["git", "-C", REPO, "status", "--porcelain", "--untracked-files=no"],
                               capture_output=True, text=True, timeout=20).stdout.strip()
        return head, bool(dirty)
    except Exception:
        return "unknown", False
