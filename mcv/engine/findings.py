"""Known-findings file: /verif/KNOWN_FINDINGS.txt (never written at run time).

Lines:
  open: property=<id> key=<matcher> <what fails>
  fixed: property=<id> <commit> <what failed>
A matcher is a named predicate below over (case descriptor, failure detail, signature); it must
be specific enough that another violation of the same property does not match.
A `fixed:` entry suppresses nothing.
"""
import os
import re

from . import core

PATH = os.path.join(core.VERIF, "KNOWN_FINDINGS.txt")

MATCHERS = {}


def matcher(name):
    def deco(fn):
        MATCHERS[name] = fn
        return fn
    return deco


def load_open(cid):
    out = []
    if not os.path.exists(PATH):
        return out
    with open(PATH) as f:
        for line in f:
            line = line.strip()
            m = re.match(r"open:\s+property=(\S+)\s+key=(\S+)\s+(.*)$", line)
            if m and m.group(1) == cid:
                out.append({"key": m.group(2), "text": m.group(3)})
    return out


def match(known, cid, v):
    for k in known:
        fn = MATCHERS.get(k["key"])
        if fn is None:
            continue
        try:
            if fn(v["case"], v.get("detail"), v.get("sig")):
                return k
        except Exception:
            continue
    return None
