"""Reference model of a read-only file over `bytes`; and of the sample-reversed view."""


class Reject(Exception):
    pass


class RefFile:
    def __init__(self, content: bytes, width: int = 0):
        """width>0: sample-reversed view semantics (content is already the reversed window);
        unaligned positions / clipped sizes must be rejected by the implementation."""
        self.content = content
        self.L = len(content)
        self.p = 0
        self.width = width

    def clone(self):
        r = RefFile(self.content, self.width)
        r.p = self.p
        return r

    def apply(self, op):
        """op = ['seek', off, whence] | ['read', n] | ['tell'] -> expected return value.
        Raises Reject when a reversed view must reject the operation."""
        kind = op[0]
        if kind == "tell":
            return self.p
        if kind == "seek":
            base = (0, self.p, self.L)[op[2]]
            t = min(max(base + op[1], 0), self.L)
            if self.width and t % self.width:
                raise Reject("unaligned position")
            self.p = t
            return t
        if kind == "read":
            n = op[1]
            k = self.L - self.p if (n is None or n < 0) else min(n, self.L - self.p)
            if self.width and k % self.width:
                raise Reject("unaligned size")
            out = self.content[self.p:self.p + k]
            self.p += k
            return out
        raise ValueError(op)
