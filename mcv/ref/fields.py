"""Printed forms of stored header bytes (C20), written from the format description."""
import re

NOTE_NAMES = ["A", "A#", "B", "C", "C#", "D", "D#", "E", "F", "F#", "G", "G#"]


def note_name(b, a0=21):
    v = b - a0
    return f"{NOTE_NAMES[v % 12]}{v // 12}"


def s8(v):
    return v - 256 if v > 127 else v


def norm(s):
    return re.sub(r"[^a-z0-9\-]", "", s.lower())


SAMPLE_LOOP = {0: "Loop in release", 1: "Loop until release", 2: "No loop", 3: "Play until end", 4: "Loop as sample"}
ZONE_LOOP = {0: "Loop as sample", 1: "Loop in release", 2: "Loop until release", 3: "No loop", 4: "Play until end"}
PRIORITY = {0: "Low", 1: "Normal", 2: "High", 3: "Hold"}
REASSIGN = {0: ["Oldest"], 1: ["Quietiest", "Quietest"]}
VOICE_SCALE = {0: "-6", 1: "0", 2: "12"}
STEREO_SCALE = {0: "0", 1: "6"}
ROLAND_LOOP = {0: "Forward End", 1: "Forward Release", 2: "Oneshot", 3: "Forward Oneshot", 4: "Alternate", 5: "Reverse Oneshot",
               6: "Reverse Loop"}
ROLAND_FREQ = {0: 48000, 1: 44100, 2: 24000, 3: 22050, 4: 30000, 5: 15000}
SAMPLE_TYPE = {1: "S1000 Sample", 3: "S3000 Sample"}


def cents_value(x):
    """signed tuning byte -> cents as the format defines it"""
    if x == 0:
        return 0.0
    return (100.0 / 255.0) * (x + 128) - 50.0


def matches(kind, stored, printed):
    """does the printed text state the stored value?  stored: raw unsigned byte (or int for wider fields)"""
    p = printed.strip()
    if kind == "u8" or kind == "u16" or kind == "u32":
        return p == str(stored)
    if kind == "s8":
        return p == str(s8(stored))
    if kind == "bool":
        return p == ("False" if stored == 0 else "True")
    if kind == "note":
        return p == note_name(stored)
    if kind == "midinote":
        return p == note_name(stored)
    if kind == "omni":
        return p == ("Omni" if stored == 255 else str(stored))
    if kind == "off":
        return p == ("Off" if stored == 255 else str(stored))
    if kind == "cents":
        try:
            return abs(float(p) - cents_value(s8(stored))) < 1e-6
        except ValueError:
            return False
    if kind == "name12":
        return p == stored.strip()
    table = {"enum:priority": PRIORITY, "enum:zone_loop": ZONE_LOOP, "enum:sample_loop": SAMPLE_LOOP,
             "enum:voice_scale": VOICE_SCALE, "enum:stereo_scale": STEREO_SCALE, "enum:roland_loop": ROLAND_LOOP,
             "enum:sample_type": SAMPLE_TYPE}.get(kind)
    if kind == "enum:reassign":
        return any(norm(p) == norm(x) for x in REASSIGN.get(stored, []))
    if table is not None:
        return stored in table and norm(p) == norm(table[stored])
    raise ValueError(kind)


def in_domain(kind, stored):
    if kind == "enum:priority":
        return stored in PRIORITY
    if kind == "enum:reassign":
        return stored in REASSIGN
    if kind == "enum:voice_scale":
        return stored in VOICE_SCALE
    if kind == "enum:stereo_scale":
        return stored in STEREO_SCALE
    if kind == "enum:zone_loop":
        return stored in ZONE_LOOP
    if kind == "enum:sample_loop":
        return stored in SAMPLE_LOOP
    if kind == "enum:roland_loop":
        return stored in ROLAND_LOOP
    return True


def domain_values(kind):
    """boundary values of the stored domain"""
    if kind in ("u8", "omni", "off"):
        return [0, 1, 127, 128, 254, 255]
    if kind in ("s8", "cents"):
        return [0x80, 0x81, 0xFF, 0x00, 0x01, 0x7E, 0x7F]
    if kind == "bool":
        return [0, 1, 2, 255]
    if kind in ("note", "midinote"):
        return [0, 20, 21, 24, 60, 127, 128, 255]
    if kind == "enum:priority":
        return [0, 1, 2, 3]
    if kind == "enum:reassign":
        return [0, 1]
    if kind == "enum:voice_scale":
        return [0, 1, 2]
    if kind == "enum:stereo_scale":
        return [0, 1]
    if kind in ("enum:zone_loop", "enum:sample_loop"):
        return [0, 1, 2, 3, 4]
    if kind == "enum:roland_loop":
        return [0, 1, 2, 3, 4, 5, 6]
    raise ValueError(kind)


def parse_info(out):
    """InfoTree text -> (header line, {path: value}, capped?). Paths are '/'-joined keys."""
    lines = out.split("\n")
    capped = any("exceeded" in l and l.startswith("(...)") for l in lines)
    header = lines[0] if lines else ""
    vals = {}
    stack = []      # (indent, key)
    for l in lines[2:]:
        if not l.strip() or l.startswith("(...)"):
            continue
        indent = len(l) - len(l.lstrip(" "))
        body = l.strip()
        if ":" not in body:
            continue
        key, _, val = body.partition(":")
        while stack and stack[-1][0] >= indent:
            stack.pop()
        path = "/".join([k for _, k in stack] + [key])
        if path in vals:
            vals.setdefault("__duplicates__", "")
            vals["__duplicates__"] += path + ";"
        vals[path] = val.strip()
        stack.append((indent, key))
    return header, vals, capped
