"""Independent RIFF/WAVE walker (struct only) + stdlib `wave` as a second opinion."""
import io
import struct
import wave


class Wav:
    def __init__(self):
        self.errors = []
        self.chunks = []     # (id, payload offset, size)
        self.fmt = None      # dict
        self.smpl = None
        self.data = None


def walk(b: bytes) -> Wav:
    w = Wav()
    if len(b) < 12 or b[0:4] != b"RIFF" or b[8:12] != b"WAVE":
        w.errors.append("no RIFF/WAVE header")
        return w
    riff_size = struct.unpack_from("<I", b, 4)[0]
    if riff_size != len(b) - 8:
        w.errors.append(f"RIFF size {riff_size} != file length - 8 = {len(b) - 8}")
    p = 12
    while p < len(b):
        if p + 8 > len(b):
            w.errors.append(f"trailing {len(b) - p} bytes do not form a chunk header")
            break
        cid = b[p:p + 4]
        size = struct.unpack_from("<I", b, p + 4)[0]
        if p + 8 + size > len(b):
            w.errors.append(f"chunk {cid!r} size {size} runs past the end of file")
            w.chunks.append((cid, p + 8, len(b) - p - 8))
            break
        w.chunks.append((cid, p + 8, size))
        p += 8 + size
    return w


def validate(b: bytes) -> Wav:
    """C04 structure: fmt(16) [smpl] data, sizes tile the file, PCM fields consistent."""
    w = walk(b)
    if w.errors and not w.chunks:
        return w
    ids = [c[0] for c in w.chunks]
    if ids not in ([b"fmt ", b"data"], [b"fmt ", b"smpl", b"data"]):
        w.errors.append(f"chunk sequence {ids} is not fmt [smpl] data")
    for cid, off, size in w.chunks:
        if cid == b"fmt ":
            if size != 16:
                w.errors.append(f"fmt chunk size {size} != 16")
            if size >= 16:
                tag, ch, rate, brate, align, bits = struct.unpack_from("<HHIIHH", b, off)
                w.fmt = dict(tag=tag, channels=ch, rate=rate, byte_rate=brate, align=align, bits=bits)
                if tag != 1:
                    w.errors.append(f"format tag {tag} != 1")
                if bits != 16:
                    w.errors.append(f"bits per sample {bits} != 16")
                if align != ch * 2:
                    w.errors.append(f"block align {align} != channels*2 = {ch * 2}")
                if brate != (rate * align) & 0xFFFFFFFF or brate != rate * align:
                    w.errors.append(f"byte rate {brate} != rate*align = {rate * align}")
                if ch < 1:
                    w.errors.append("channels < 1")
        elif cid == b"smpl":
            if size < 36:
                w.errors.append(f"smpl chunk size {size} < 36")
            else:
                f = struct.unpack_from("<9I", b, off)
                w.smpl = dict(manufacturer=f[0], product=f[1], period=f[2], note=f[3], fraction=f[4],
                              smpte_format=f[5], smpte_offset=f[6], loops=f[7], sampler_data=f[8])
                if size != 36 + 24 * f[7]:
                    w.errors.append(f"smpl size {size} != 36 + 24*{f[7]}")
                else:
                    w.smpl["loop_table"] = [struct.unpack_from("<6I", b, off + 36 + 24 * i) for i in range(f[7])]
        elif cid == b"data":
            w.data = b[off:off + size]
    if w.fmt is None:
        w.errors.append("no fmt chunk")
    if w.data is None:
        w.errors.append("no data chunk")
    if w.fmt and w.data is not None and w.fmt["align"]:
        if len(w.data) % w.fmt["align"]:
            w.errors.append(f"data length {len(w.data)} not a whole number of frames of {w.fmt['align']}")
    if not w.errors:
        # second opinion
        try:
            with wave.open(io.BytesIO(b), "rb") as r:
                if (r.getnchannels(), r.getframerate(), r.getsampwidth()) != (w.fmt["channels"], w.fmt["rate"], 2):
                    w.errors.append("stdlib wave disagrees on channels/rate/width")
                if r.getnframes() * w.fmt["align"] != len(w.data):
                    w.errors.append("stdlib wave disagrees on frame count")
        except Exception as e:
            w.errors.append(f"stdlib wave cannot open: {type(e).__name__}: {e}")
    return w


def split_channels(data: bytes, channels: int):
    """16-bit little-endian interleaved -> list of per-channel bytes."""
    if channels == 1:
        return [data]
    n = len(data) // (2 * channels)
    outs = [bytearray() for _ in range(channels)]
    for f in range(n):
        for c in range(channels):
            o = (f * channels + c) * 2
            outs[c] += data[o:o + 2]
    return [bytes(x) for x in outs]
