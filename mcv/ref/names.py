"""Statement-level naming rules (C05/C06/C10) -- deliberately NOT a re-implementation of the sanitiser."""
import re

COMPONENT_OK = re.compile(r"^[\w \-.#()]+$")


def component_errors(comp):
    """C06: non-empty, only word characters, space, - . # ( ), begins with a word character,
    does not end in a space or dot."""
    errs = []
    if comp == "":
        return ["empty component"]
    if not COMPONENT_OK.match(comp):
        errs.append(f"illegal characters in {comp!r}")
    if not re.match(r"\w", comp):
        errs.append(f"{comp!r} does not begin with a word character")
    if comp[-1] in " .":
        errs.append(f"{comp!r} ends in a space or dot")
    return errs


def lr_prefix(name):
    """name = P + 'L'|'R' with P ending in a space or hyphen -> (P, side) else None"""
    if len(name) >= 2 and name[-1] in "LR" and name[-2] in " -":
        return name[:-1], name[-1]
    return None


def stem_of(prefix):
    return prefix.rstrip(" -")


def pair_analysis(names):
    """names: list of stored sibling names (padding stripped).
    -> (pairs, ambiguous, mono): pairs = [(iL, iR, stem)] for prefixes with exactly one L and one R sibling;
    ambiguous = set of indices involved in prefixes with both sides present but not 1/1; mono = other indices."""
    groups = {}
    for i, n in enumerate(names):
        pr = lr_prefix(n)
        if pr:
            groups.setdefault(pr[0], {"L": [], "R": []})[pr[1]].append(i)
    pairs, amb = [], set()
    used = set()
    for p, g in groups.items():
        if len(g["L"]) == 1 and len(g["R"]) == 1:
            pairs.append((g["L"][0], g["R"][0], stem_of(p)))
            used.update((g["L"][0], g["R"][0]))
        elif g["L"] and g["R"]:
            amb.update(g["L"] + g["R"])
    mono = [i for i in range(len(names)) if i not in used and i not in amb]
    return pairs, amb, mono


def wordkey(s):
    return re.sub(r"[^\w]", "", s)
