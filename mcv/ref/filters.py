"""Direct-form reference filters in plain Python floats (boring on purpose)."""
import math


def cround(x):
    """C round(): half away from zero."""
    return math.floor(x + 0.5) if x >= 0 else -math.floor(-x + 0.5)


def fir_float(x, h, m0):
    """Generic FIR with delay offset m0 over the whole signal: valid convolution of
    [zeros(N-1-m0), x, zeros(m0)] with h.  Returns list of floats, len == len(x)."""
    N = len(h)
    m1 = N - 1 - m0
    xf = [0.0] * m1 + [float(v) for v in x] + [0.0] * m0
    out = []
    for i in range(len(xf) - N + 1):
        acc = 0.0
        for j in range(N):
            acc += xf[i + j] * h[N - 1 - j]
        out.append(acc)
    return out


def chick_fir(x, h, m0, k):
    """ChickenSys FIR: each product divided by k and rounded before summing; then saturate+round.
    Returns (outputs, raw unsaturated sums)."""
    N = len(h)
    m1 = N - 1 - m0
    xf = [0] * m1 + [int(v) for v in x] + [0] * m0
    out, raw = [], []
    for i in range(len(xf) - N + 1):
        acc = 0.0
        for j in range(N):
            acc += cround((xf[i + j] * int(h[N - 1 - j])) / k)
        raw.append(acc)
        if acc > 32767.0:
            out.append(32767)
        elif acc < -32768.0:
            out.append(-32768)
        else:
            out.append(int(cround(acc)))
    return out, raw


def iir_float(x, B, A):
    xs = [0.0] * (len(B) - 1)
    ys = [0.0] * (len(A) - 1)
    out = []
    for v in x:
        xs = [float(v)] + xs
        acc = sum(b * xv for b, xv in zip(B, xs)) - sum(a * yv for a, yv in zip(A[1:], ys))
        acc /= A[0]
        out.append(acc)
        xs = xs[:len(B) - 1]
        ys = ([acc] + ys)[:len(A) - 1]
    return out


def chick_iir(x, B, A):
    """-> (int outputs, raw values before bounding)"""
    xs = [0.0] * (len(B) - 1)
    ys = [0.0] * (len(A) - 1)
    out, raw = [], []
    for v in x:
        xs = [float(v)] + xs
        acc = sum(b * xv for b, xv in zip(B, xs)) - sum(a * yv for a, yv in zip(A[1:], ys))
        acc /= A[0]
        raw.append(acc)
        bounded = min(32767.0, max(-32767.0, acc))
        out.append(int(math.trunc(bounded)))
        xs = xs[:len(B) - 1]
        ys = ([bounded] + ys)[:len(A) - 1]
    return out, raw


def compositions(n):
    """All ordered splits of n into consecutive non-empty blocks (2^(n-1) of them), as lists of sizes."""
    if n == 0:
        yield []
        return
    for mask in range(1 << (n - 1)):
        sizes = []
        cur = 1
        for i in range(n - 1):
            if mask >> i & 1:
                sizes.append(cur)
                cur = 1
            else:
                cur += 1
        sizes.append(cur)
        yield sizes
