"""Reference chain walkers and the well-formedness predicate, worded as in the C07 statement.

A chain is *well-formed* in a table iff following the table from its first sector visits
distinct in-range sectors and stops at an end marker (or, for a run of AKAI reserved-flag words,
at the last word of the run), and no sector of the chain is the target of a table entry other
than its chain predecessor (the head of a reserved run may be preceded by another reserved word).
"""

A_FREE, A_END, A_RES1, A_RES2 = 0x0000, 0xC000, 0x4000, 0x8000
A_RES = (A_RES1, A_RES2)

R_FREE, R_RES, R_ERR, R_END_MIN = 0x0000, 0x0001, 0xFFF7, 0xFFF8


# ----------------------------------------------------------------------------- generic link table
# entries: -1 = end, j>=0 = next sector j (j == n is out of range)
def link_chain(T, s):
    n = len(T)
    if s < 0 or s >= n:
        return None, "start-out-of-range"
    chain = []
    seen = set()
    cur = s
    while True:
        if cur >= n:
            return None, "out-of-range"
        if cur in seen:
            return None, "cycle"
        seen.add(cur)
        chain.append(cur)
        w = T[cur]
        if w < 0:
            break
        cur = w
    # exclusivity
    inchain = {c: i for i, c in enumerate(chain)}
    for j, w in enumerate(T):
        if w >= 0 and w in inchain:
            i = inchain[w]
            if i == 0 or chain[i - 1] != j:
                return None, "cross-link"
    return chain, "ok"


# ----------------------------------------------------------------------------- AKAI raw SAT
def akai_chain(T, s):
    n = len(T)
    if s < 0 or s >= n:
        return None, "start-out-of-range"
    w = T[s]
    if w in A_RES:
        chain = [s]
        cur = s
        while cur + 1 < n and T[cur + 1] in A_RES:
            cur += 1
            chain.append(cur)
        cs = set(chain)
        for j, v in enumerate(T):
            if v not in A_RES and v != A_FREE and v != A_END and v in cs:
                return None, "link-into-run"
        return chain, "ok-run"
    chain = []
    seen = set()
    cur = s
    while True:
        if cur in seen:
            return None, "cycle"
        seen.add(cur)
        chain.append(cur)
        w = T[cur]
        if w == A_END:
            break
        if w == A_FREE:
            return None, "runs-into-free"
        if w in A_RES:
            return None, "enters-reserved-run"
        if w >= n:
            return None, "out-of-range"
        cur = w
    inchain = {c: i for i, c in enumerate(chain)}
    for j, v in enumerate(T):
        if v in A_RES or v == A_FREE or v == A_END:
            continue
        if v in inchain:
            i = inchain[v]
            if i == 0 or chain[i - 1] != j:
                return None, "cross-link"
    return chain, "ok"


# ----------------------------------------------------------------------------- Roland raw FAT
def roland_chain(T, s):
    """T: full word table (indices 0..N-1); s: first cluster."""
    n = len(T)
    if s < 2 or s >= n:
        return None, "start-out-of-range"
    chain = []
    seen = set()
    cur = s
    while True:
        if cur >= n:
            return None, "out-of-range"
        if cur in seen:
            return None, "cycle"
        seen.add(cur)
        chain.append(cur)
        w = T[cur]
        if w >= R_END_MIN:
            break
        if w == R_FREE:
            return None, "runs-into-free"
        if w == R_RES:
            return None, "runs-into-reserved"
        if w == R_ERR:
            return None, "runs-into-error"
        cur = w
    inchain = {c: i for i, c in enumerate(chain)}
    for j, v in enumerate(T):
        if j < 2:
            continue
        if v in (R_FREE, R_RES, R_ERR) or v >= R_END_MIN:
            continue
        if v in inchain:
            i = inchain[v]
            if i == 0 or chain[i - 1] != j:
                return None, "cross-link"
    return chain, "ok"
