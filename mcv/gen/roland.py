"""Independent Roland S-7xx image writer (struct.pack only; imports nothing from smpl_extract).

model = {
  "fat_version": 1|2, "disk_name": str,
  "volumes":      [ {"name": str, "perfs": [performance index...]} ... ]            (index = position)
  "performances": { idx: {"name": str, "patches": [patch idx...], "type": 0x41} }
  "patches":      { idx: {"name": str, "partials": [partial idx...]} }
  "partials":     { idx: {"name": str, "samples": [up to 4 sample idx or -1]} }
  "samples":      { idx: {"name": str, "chain": [cluster...], "cluster_top": int, "points": (start, sus_start,
                          sus_end, rel_start, rel_end), "mode": 0..6, "freq": 0..5, "key": int, "seq": int,
                          "fine": (5 bytes)?, "stereo": 0|1} }
  "counts": optional override of the 5 ID-area counts, "pad": " " or "\0", "extra_clusters": n
}
Returns (bytes, layout map).
"""
import struct

CLUSTER = 0x2400
CLUSTER_WORDS = CLUSTER // 2
FAT_OFF = 0x80800
FAT_N = 0x10000
DATA_FAT_OFF = 0x2B1000
DIR_OFF = {"volume": 0xA0800, "performance": 0xA1800, "patch": 0xA5800, "partial": 0xAD800, "sample": 0xCD800}
PAR_OFF = {"volume": (0x10D800, 0x100), "performance": (0x115800, 0x200), "patch": (0x155800, 0x200),
           "partial": (0x1D5800, 0x80), "sample": (0x255800, 0x30)}
TYPE = {"volume": 0x40, "performance": 0x41, "patch": 0x42, "partial": 0x43, "sample": 0x44}
FREQS = [48000, 44100, 24000, 22050, 30000, 15000]
END = 0xFFF8


def name16(s, pad=" "):
    b = s.encode("latin-1") if isinstance(s, str) else bytes(s)
    assert len(b) <= 16, s
    return b + pad.encode() * (16 - len(b))


def pcm_words(seq, n):
    return [((seq * 2011 + i * 37 + 5) & 0xFFFF) for i in range(n)]


def words_bytes(words):
    return struct.pack("<%dH" % len(words), *words)


def dir_record(name, ftype, fat_entry=0, clusters=0, pad=" ", fwd=0, bwd=0):
    r = name16(name, pad) + struct.pack("<BBHHHIHH", ftype, 0, fwd, bwd, 0, 0, fat_entry, clusters)
    assert len(r) == 32
    return r


def sample_param(s, pad=" "):
    pts = s["points"]
    fine = s.get("fine", (0, 0, 0, 0, 0))
    r = name16(s.get("pname", s["name"]), pad)
    for a, f in zip(pts, fine):
        r += struct.pack("<I", ((a & 0xFFFFFF) << 8) | (f & 0xFF))
    r += struct.pack("<BBBB", s.get("mode", 0), s.get("sus_enable", 0), s.get("sus_tune", 0), s.get("rel_tune", 0))
    r += struct.pack("<HH", s.get("cluster_top", 0), s.get("num_clusters", len(s["chain"])))
    r += struct.pack("<BB", ((s.get("stereo", 0) & 0xF) << 4) | (s.get("freq", 1) & 0xF), s.get("key", 60))
    r += b"\x00\x00"
    assert len(r) == 48, len(r)
    return r


def build_roland(model):
    pad = model.get("pad", " ")
    samples = model.get("samples", {})
    maxc = 1
    for s in samples.values():
        if s["chain"]:
            maxc = max(maxc, max(s["chain"]))
    maxc += model.get("extra_clusters", 0)
    size = DATA_FAT_OFF + CLUSTER * (maxc + 1) + model.get("trailing", 0)
    buf = bytearray(size)
    layout = {}
    # --- ID area
    struct.pack_into("<I", buf, 0, model.get("revision", 1))
    buf[4:14] = b"S770 MR25A"
    v = model.get("version_str", "S-770 Hard Disk Ver. 1.03").encode()
    buf[32:32 + len(v)] = v
    c = b"Copyright Roland"
    buf[64:64 + len(c)] = c
    buf[256:272] = name16(model.get("disk_name", "DISK"), pad)
    struct.pack_into("<I", buf, 272, model.get("capacity", 0))
    counts = model.get("counts")
    if counts is None:
        counts = [len(model.get("volumes", [])),
                  (max(model.get("performances", {}), default=-1) + 1) if model.get("count_mode") == "max" else len(model.get("performances", {})),
                  len(model.get("patches", {})), len(model.get("partials", {})), len(samples)]
    struct.pack_into("<5H", buf, 276, *counts)
    layout["id.counts"] = (276, 10)
    # --- FAT
    fat = [0] * FAT_N
    fat[0] = 0xFFFA
    used = {}
    for idx, s in samples.items():
        ch = s["chain"]
        for a, b in zip(ch, ch[1:]):
            fat[a] = b
        if ch:
            fat[ch[-1]] = s.get("end_word", END)
        for cl in ch:
            assert 2 <= cl < FAT_N - 10
            if cl in used:
                # two samples may live in ONE chain (same first cluster, different leading-cluster offsets), e.g. the
                # halves of one recording; they then hold the same words
                other = samples[used[cl]]
                assert other["chain"] == ch and other["seq"] == s["seq"], f"cluster {cl} used twice: sample {used[cl]} and {idx}"
            used[cl] = idx
    fat[1] = model.get("free_count", 0)
    if model.get("fat_version", 1) == 2:
        fat[FAT_N - 2], fat[FAT_N - 1] = 0xFFFE, 0xFFFE
    else:
        fat[FAT_N - 2], fat[FAT_N - 1] = 0xFFFF, 0xFFFF
    for cl, w in model.get("fat_patch", {}).items():
        fat[int(cl)] = w
    struct.pack_into("<%dH" % FAT_N, buf, FAT_OFF, *fat)
    layout["fat"] = (FAT_OFF, FAT_N * 2)

    def put_dir(kind, idx, rec):
        o = DIR_OFF[kind] + 32 * idx
        buf[o:o + 32] = rec
        layout[f"{kind}{idx}.dir"] = (o, 32)

    def put_par(kind, idx, rec):
        base, sz = PAR_OFF[kind]
        assert len(rec) <= sz
        o = base + sz * idx
        buf[o:o + len(rec)] = rec
        layout[f"{kind}{idx}.param"] = (o, sz)

    # --- volumes
    for vi, vol in enumerate(model.get("volumes", [])):
        put_dir("volume", vi, dir_record(vol["name"], vol.get("type", TYPE["volume"]), pad=pad))
        ptrs = list(vol["perfs"]) + [-1] * (64 - len(vol["perfs"]))
        put_par("volume", vi, name16(vol.get("pname", vol["name"]), pad) + bytes(16) + struct.pack("<64h", *ptrs))
    for pi, perf in model.get("performances", {}).items():
        pi = int(pi)
        put_dir("performance", pi, dir_record(perf["name"], perf.get("type", TYPE["performance"]), pad=pad))
        lst = list(perf["patches"]) + [-1] * (32 - len(perf["patches"]))
        body = name16(perf.get("pname", perf["name"]), pad) + bytes(240) + struct.pack("<32h", *lst)
        put_par("performance", pi, body)
    for pi, patch in model.get("patches", {}).items():
        pi = int(pi)
        put_dir("patch", pi, dir_record(patch["name"], TYPE["patch"], pad=pad))
        lst = list(patch["partials"]) + [-1] * (88 - len(patch["partials"]))
        body = name16(patch.get("pname", patch["name"]), pad) + bytes(240) + struct.pack("<88h", *lst)
        put_par("patch", pi, body)
    for pi, part in model.get("partials", {}).items():
        pi = int(pi)
        put_dir("partial", pi, dir_record(part["name"], TYPE["partial"], pad=pad))
        sel = list(part["samples"]) + [-1] * (4 - len(part["samples"]))
        body = bytearray(0x80)
        body[0:16] = name16(part.get("pname", part["name"]), pad)
        for k, off in enumerate((16, 32, 48, 64)):
            struct.pack_into("<h", body, off, sel[k])
            body[off + 7] = 0      # smt velocity lower
            body[off + 9] = 127    # smt velocity upper
        put_par("partial", pi, bytes(body))
    for si, s in samples.items():
        si = int(si)
        ch = s["chain"]
        put_dir("sample", si, dir_record(s["name"], s.get("type", TYPE["sample"]), s.get("fat_entry", ch[0] if ch else 0),
                                         s.get("dir_clusters", len(ch)), pad=pad))
        put_par("sample", si, sample_param(s, pad))
        words = pcm_words(s["seq"], CLUSTER_WORDS * len(ch))
        data = words_bytes(words)
        for k, cl in enumerate(ch):
            o = DATA_FAT_OFF + CLUSTER * cl
            buf[o:o + CLUSTER] = data[k * CLUSTER:(k + 1) * CLUSTER]
            layout[f"sample{si}.cluster[{k}]"] = (o, CLUSTER)
    return bytes(buf), layout


def sample_pcm(s):
    """Expected exported PCM bytes of a sample per the statement: words start..end(mode) of the
    chain minus the leading cluster_top clusters; word-reversed for modes 5, 6."""
    ch = s["chain"][s.get("cluster_top", 0):]
    full = pcm_words(s["seq"], CLUSTER_WORDS * len(s["chain"]))
    words = full[CLUSTER_WORDS * s.get("cluster_top", 0):]
    start, ss, se, rs, re_ = s["points"]
    end = re_ if s.get("mode", 0) in (1, 3) else se
    w = words[start:end + 1]
    if s.get("mode", 0) in (5, 6):
        w = w[::-1]
    return words_bytes(w)


def reachable_samples(model, perf_idx):
    """sample indices reachable performance -> patch -> partial -> sample (set)"""
    out = []
    perf = model["performances"][perf_idx]
    for pa in sorted(set(p for p in perf["patches"] if p >= 0)):
        patch = model["patches"].get(pa)
        if patch is None:
            continue
        for pl in sorted(set(p for p in patch["partials"] if p >= 0)):
            part = model["partials"].get(pl)
            if part is None:
                continue
            for si in part["samples"]:
                if si >= 0 and si in model["samples"] and si not in out:
                    out.append(si)
    return out


def expected_exports(model, strip=True):
    """{relative path: (1, rate, pcm)} for models with plain, collision-free names and no L/R pairs."""
    exp = {}
    referenced = set()
    vols = []
    for vol in model.get("volumes", []):
        ps = sorted(set(p for p in vol["perfs"] if p >= 0))
        referenced.update(ps)
        vols.append((vol["name"], ps))
    orphans = [p for p in sorted(model.get("performances", {})) if p not in referenced
               and model["performances"][p].get("type", 0x41) == 0x41]
    if orphans or model.get("expect_orphan_volume"):
        vols.append(("All Performances" if not model.get("volumes") else "_Orphan_perf", orphans))
    for vname, ps in vols:
        for p in ps:
            if p not in model["performances"]:
                continue
            perf = model["performances"][p]
            for si in reachable_samples(model, p):
                s = model["samples"][si]
                path = "/".join(x.strip() for x in (vname, perf["name"], s["name"])) + ".wav"
                exp[path] = (1, FREQS[s.get("freq", 1)], sample_pcm(s))
    return exp
