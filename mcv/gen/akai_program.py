"""Independent AKAI program / keygroup writer with field tables (used by C16, C13, C20).

Field tables: (name, offset, kind) with kind in u8, s8, bool, note, cents, enum:<name>, omni, off, u16, name12.
"""
import struct

from .akai import akai_name

PROGRAM_FIELDS = [
    ("program_id", 0, "u8"), ("first_keygroup_address", 1, "u16"), ("program_name", 3, "name12"),
    ("midi_program_number", 15, "u8"), ("midi_channel", 16, "omni"), ("polyphony", 17, "u8"), ("priority", 18, "enum:priority"),
    ("low_key", 19, "note"), ("high_key", 20, "note"), ("octave_shift", 21, "s8"), ("aux_output_select", 22, "off"),
    ("mix_output_level", 23, "u8"), ("mix_output_pan", 24, "s8"), ("volume", 25, "u8"), ("vel_to_volume", 26, "s8"),
    ("key_to_volume", 27, "s8"), ("pres_to_volume", 28, "s8"), ("pan_lfo_rate", 29, "u8"), ("pan_lfo_depth", 30, "u8"),
    ("pan_lfo_delay", 31, "u8"), ("key_to_pan", 32, "s8"), ("lfo_rate", 33, "u8"), ("lfo_depth", 34, "u8"), ("lfo_delay", 35, "u8"),
    ("mod_to_lfo_depth", 36, "u8"), ("pres_to_lfo_depth", 37, "u8"), ("vel_to_lfo_depth", 38, "u8"), ("bend_to_pitch", 39, "u8"),
    ("pres_to_pitch", 40, "s8"), ("keygroup_crossfade", 41, "bool"), ("number_of_keygroups", 42, "u8"),
    ("fx_output", 56, "bool"), ("mod_to_pan", 57, "s8"), ("stereo_coherence", 58, "bool"), ("lfo_desync", 59, "bool"),
    ("pitch_law", 60, "u8"), ("voice_reassign", 61, "enum:reassign"), ("softped_to_volume", 62, "u8"), ("softped_to_attack", 63, "u8"),
    ("softped_to_filter", 64, "u8"), ("tune_cents", 65, "cents"), ("tune_semitones", 66, "s8"), ("key_to_lfo_rate", 67, "s8"),
    ("key_to_lfo_depth", 68, "s8"), ("key_to_lfo_delay", 69, "s8"), ("voice_output_scale_db", 70, "enum:voice_scale"),
    ("stereo_output_scale_db", 71, "enum:stereo_scale"),
]
TEMPERAMENT_OFF = 44
PROGRAM_SIZE = 72

KEYGROUP_FIELDS = [
    ("block_id", 0, "u8"), ("next_keygroup_address", 1, "u16"), ("low_key", 3, "note"), ("high_key", 4, "note"),
    ("tune_cents", 5, "cents"), ("tune_semitones", 6, "s8"), ("filter_cutoff", 7, "u8"), ("key_to_filter_cutoff", 8, "u8"),
    ("velocity_to_filter_cutoff", 9, "s8"), ("pressure_to_filter_cutoff", 10, "s8"), ("env2_to_filter_cutoff", 11, "s8"),
    ("env1_attack", 12, "u8"), ("env1_decay", 13, "u8"), ("env1_sustain", 14, "u8"), ("env1_release", 15, "u8"),
    ("env1_velocity_to_attack", 16, "s8"), ("env1_velocity_to_release", 17, "s8"), ("env1_off_velocity_to_release", 18, "s8"),
    ("env1_key_to_decay_and_release", 19, "s8"), ("env2_attack", 20, "u8"), ("env2_decay", 21, "u8"), ("env2_sustain", 22, "u8"),
    ("env2_release", 23, "u8"), ("env2_velocity_to_attack", 24, "s8"), ("env2_velocity_to_release", 25, "s8"),
    ("env2_off_velocity_to_release", 26, "s8"), ("env2_key_to_decay_and_release", 27, "s8"),
    ("velocity_to_env2_to_filter_cutoff", 28, "s8"), ("env2_to_pitch", 29, "s8"), ("velocity_zone_crossfade", 30, "bool"),
    ("beat_detune", 130, "s8"), ("hold_attack_until_loop", 131, "bool"), ("velocity_to_volume_offset", 148, "s8"),
]
NUM_ZONES_OFF = 31
ZONES_OFF = 34
ZONE_SIZE = 24
ZONE_FIELDS = [
    ("sample_name", 0, "name12"), ("low_velocity", 12, "u8"), ("high_velocity", 13, "u8"), ("tune_cents", 14, "cents"),
    ("tune_semitones", 15, "s8"), ("loudness_offset", 16, "s8"), ("filter_cutoff_offset", 17, "s8"), ("pan_offset", 18, "s8"),
    ("loop_mode", 19, "enum:zone_loop"),
]
KEY_TRACK_OFF = 132
AUX_OUT_OFF = 136
START_OFF = 140
KEYGROUP_SIZE = 150


def _put(buf, off, kind, val):
    if kind in ("u8", "bool", "note", "omni", "off") or kind.startswith("enum"):
        buf[off] = int(val) & 0xFF
    elif kind in ("s8", "cents"):
        buf[off] = int(val) & 0xFF          # raw byte or signed value
    elif kind == "u16":
        struct.pack_into("<H", buf, off, int(val))
    elif kind == "name12":
        buf[off:off + 12] = akai_name(val)
    else:
        raise ValueError(kind)


def default_program_values():
    v = {name: 0 for name, _, _ in PROGRAM_FIELDS}
    v.update(program_id=1, first_keygroup_address=150, program_name="PROG", midi_channel=0, polyphony=15, priority=1,
             low_key=24, high_key=127, aux_output_select=0xFF, mix_output_level=99, volume=80, vel_to_volume=20,
             pan_lfo_rate=50, lfo_rate=50, mod_to_lfo_depth=30, bend_to_pitch=2, number_of_keygroups=1, lfo_desync=1,
             softped_to_volume=10, softped_to_attack=10, softped_to_filter=10, voice_output_scale_db=1)
    return v


def default_keygroup_values():
    v = {name: 0 for name, _, _ in KEYGROUP_FIELDS}
    v.update(block_id=2, low_key=24, high_key=127, filter_cutoff=99, key_to_filter_cutoff=12, env1_decay=30, env1_sustain=99,
             env1_release=45, env2_decay=50, env2_sustain=99, env2_release=45, velocity_zone_crossfade=1)
    return v


def default_zone_values(name=""):
    return {"sample_name": name, "low_velocity": 0, "high_velocity": 127, "tune_cents": 0, "tune_semitones": 0,
            "loudness_offset": 0, "filter_cutoff_offset": 0, "pan_offset": 0, "loop_mode": 0}


def keygroup_bytes(values, zones, key_tracking=(1, 1, 1, 1), aux=(0, 0, 0, 0), starts=(0, 0, 0, 0), num_zones=4):
    buf = bytearray(KEYGROUP_SIZE)
    for name, off, kind in KEYGROUP_FIELDS:
        _put(buf, off, kind, values[name])
    buf[NUM_ZONES_OFF] = num_zones
    buf[32:34] = b"\xFF\xFF"
    zs = list(zones) + [default_zone_values("")] * (4 - len(zones))
    for zi, z in enumerate(zs[:4]):
        base = ZONES_OFF + ZONE_SIZE * zi
        for name, off, kind in ZONE_FIELDS:
            _put(buf, base + off, kind, z[name])
        buf[base + 20:base + 24] = b"\xFF\xFF\x2C\x01"
    for i in range(4):
        buf[KEY_TRACK_OFF + i] = key_tracking[i] & 0xFF
        buf[AUX_OUT_OFF + i] = aux[i] & 0xFF
        struct.pack_into("<h", buf, START_OFF + 2 * i, starts[i])
    return bytes(buf)


def program_bytes(values, keygroups, temperaments=(0,) * 12, addresses=None, total=None):
    """keygroups: list of dict(values=..., zones=[...], key_tracking, aux, starts). addresses: byte offsets of each
    keygroup inside the file (default contiguous from first_keygroup_address in steps of 150)."""
    n = len(keygroups)
    values = dict(values)
    if addresses is None:
        addresses = [150 * (i + 1) for i in range(n)]
    if n:
        values["first_keygroup_address"] = addresses[0]
    values["number_of_keygroups"] = values.get("number_of_keygroups_override", n)
    size = total or (max([PROGRAM_SIZE] + [a + KEYGROUP_SIZE for a in addresses]))
    buf = bytearray(size)
    for name, off, kind in PROGRAM_FIELDS:
        _put(buf, off, kind, values[name])
    for i, t in enumerate(temperaments):
        buf[TEMPERAMENT_OFF + i] = t & 0xFF
    for i, kg in enumerate(keygroups):
        kv = dict(kg["values"])
        if "next_keygroup_address" not in kg.get("explicit", ()):
            kv["next_keygroup_address"] = addresses[i + 1] if i + 1 < n else 0
        b = keygroup_bytes(kv, kg.get("zones", []), kg.get("key_tracking", (1, 1, 1, 1)), kg.get("aux", (0, 0, 0, 0)),
                           kg.get("starts", (0, 0, 0, 0)), kg.get("num_zones", 4))
        buf[addresses[i]:addresses[i] + KEYGROUP_SIZE] = b
    return bytes(buf)


def simple_program(name="PROG", nkg=1, zone_names=("SMP",)):
    v = default_program_values()
    v["program_name"] = name
    kgs = []
    for k in range(nkg):
        kv = default_keygroup_values()
        zones = [default_zone_values(zn) for zn in zone_names]
        kgs.append({"values": kv, "zones": zones})
    return program_bytes(v, kgs)
