"""Cue-sheet writer, position-coded bin content, and a virtual (never materialised) bin stream."""
import io

import numpy as np

SECTOR = 2352
_MUL = 2654435761


def frames_bytes(o, n):
    """Position-coded content: the 4-byte frame k is LE32(k * 2654435761 mod 2^32); returns bytes [o, o+n)."""
    if n <= 0:
        return b""
    k0, k1 = o // 4, (o + n + 3) // 4
    arr = (np.arange(k0, k1, dtype=np.uint64) * np.uint64(_MUL)) & np.uint64(0xFFFFFFFF)
    raw = arr.astype("<u4").tobytes()
    return raw[o - 4 * k0:o - 4 * k0 + n]


def bin_bytes(n):
    return frames_bytes(0, n)


class VirtualBin(io.RawIOBase):
    """Read-only stream of `size` position-coded bytes that are computed on demand."""

    def __init__(self, size):
        super().__init__()
        self.size = size
        self.pos = 0
        self.reads = 0

    def readable(self):
        return True

    def seekable(self):
        return True

    def tell(self):
        return self.pos

    def seek(self, off, whence=0):
        base = (0, self.pos, self.size)[whence]
        self.pos = max(0, base + off)
        return self.pos

    def read(self, n=-1):
        if n is None or n < 0:
            n = max(0, self.size - self.pos)
        n = max(0, min(n, self.size - self.pos))
        out = frames_bytes(self.pos, n)
        self.pos += n
        self.reads += 1
        return out

    def readall(self):
        return self.read(-1)


def msf(sectors):
    m, r = divmod(sectors, 60 * 75)
    s, f = divmod(r, 75)
    return "%02d:%02d:%02d" % (m, s, f)


def cue_lines(binname, tracks, mode_default="AUDIO"):
    """tracks: list of dict(number, mode?, title?, indices=[(index number, sector position)...], extra=[lines])"""
    out = ['FILE "%s" BINARY' % binname]
    for t in tracks:
        out.append("  TRACK %02d %s" % (t["number"], t.get("mode", mode_default)))
        if t.get("title") is not None:
            out.append('    TITLE "%s"' % t["title"])
        for x in t.get("extra", []):
            out.append("    " + x)
        for num, pos in t["indices"]:
            out.append("    INDEX %02d %s" % (num, msf(pos) if isinstance(pos, int) else pos))
    return out


def cue_text(binname, tracks, **kw):
    return "\n".join(cue_lines(binname, tracks, **kw)) + "\n"
