"""Independent AKAI S1000/S3000 image writer (struct.pack only; imports nothing from smpl_extract).

Logical model (all layouts total and explicit):
  image = {"partitions": [partition...], "trailing": n_bytes}
  partition = {"size": sectors, "hdr_sat": 0x4000|0, "volumes": [volume...]}
  volume = {"slot": 0..99, "name": str, "type": 1|3 (or raw u16 via "type_raw"),
            "dir": {"mode": "linked"|"reserved", "chain": [sector...]},
            "files": [file...], "terminator": True}
  file = {"name": str, "ftype": 0x73.., "chain": [sector...], "data": bytes, "size": optional override}
Returns (image bytes, layout map name -> (offset, length)).
"""
import struct

SECTOR = 0x2000
SAT_N = 11386
VOL_N = 100
MAGIC = b"".join(struct.pack("<H", (3333 * i) & 0xFFFF) for i in range(1, 98))
HDR_END = 202 + VOL_N * 16 + SAT_N * 2      # 24574
FIRST_DATA_SECTOR = 3
END = 0xC000
RES = 0x4000
RES2 = 0x8000
TABLE_END = 0xD747

_CH = {}
for i in range(10):
    _CH[chr(ord("0") + i)] = i
_CH[" "] = 0x0A
for i in range(26):
    _CH[chr(ord("A") + i)] = 0x0B + i
_CH["#"] = 0x25
_CH["+"] = 0x26
_CH["-"] = 0x27
_CH["."] = 0x28


def akai_name(s, n=12):
    b = bytes(_CH[c] for c in s)
    assert len(b) <= n, s
    return b + bytes([0x0A]) * (n - len(b))


def pcm_words(sample_id, n):
    """Position-coding, distinct per sample: word i of sample s."""
    return [((sample_id * 1009 + i * 31 + 17) & 0xFFFF) for i in range(n)]


def words_bytes(words):
    return struct.pack("<%dH" % len(words), *words)


def sample_header(s):
    """s: dict(sid, note, sname, loop_type, cents, semi, count, start, end, loops[8x(at,fine,len,dur)], rate)"""
    loops = list(s.get("loops", []))
    loops += [(0, 0, 0, 0)] * (8 - len(loops))
    h = struct.pack("<BBB", s.get("sid", 3), 0, s.get("note", 60))
    h += akai_name(s.get("sname", "S"))
    h += b"\x00" * 4
    h += struct.pack("<Bbb", s.get("loop_type", 2), s.get("cents", 0), s.get("semi", 0))
    h += b"\x00" * 4
    h += struct.pack("<III", s["count"], s["start"], s["end"])
    for at, fine, ln, dur in loops[:8]:
        h += struct.pack("<IHIH", at, fine, ln, dur)
    h += b"\x00" * 4
    h += struct.pack("<H", s.get("rate", 44100))
    assert len(h) == 140, len(h)
    return h


def sample_file(s, words):
    return sample_header(s) + words_bytes(words)


def file_entry(name, ftype, size, start):
    e = akai_name(name) + b"\x00" * 4 + struct.pack("<B", ftype) + struct.pack("<I", size)[:3] \
        + struct.pack("<H", start) + b"\x00" * 2
    assert len(e) == 24
    return e


def terminator_entry():
    e = bytearray(24)
    e[8:10] = struct.pack("<H", TABLE_END)
    return bytes(e)


def needed_sectors(nbytes):
    return max(1, -(-nbytes // SECTOR))


def build_akai(model):
    out = bytearray()
    layout = {}
    for pi, part in enumerate(model["partitions"]):
        P = len(out)
        S = part["size"]
        buf = bytearray(S * SECTOR)
        sat = [0] * SAT_N
        hs = part.get("hdr_sat", RES)
        for i in range(FIRST_DATA_SECTOR):
            sat[i] = hs
        used = {}

        def claim(sec, who):
            assert FIRST_DATA_SECTOR <= sec < S, (sec, S, who)
            assert sec not in used, f"sector {sec} used twice: {used[sec]} and {who}"
            used[sec] = who

        def link(chain, who):
            for a, b in zip(chain, chain[1:]):
                sat[a] = b
            sat[chain[-1]] = END
            for c in chain:
                claim(c, who)

        def put(chain, data, who):
            assert len(data) <= len(chain) * SECTOR, (who, len(data), chain)
            for k, c in enumerate(chain):
                piece = data[k * SECTOR:(k + 1) * SECTOR]
                buf[c * SECTOR:c * SECTOR + len(piece)] = piece
                layout[f"{who}.sector[{k}]"] = (P + c * SECTOR, SECTOR)

        struct.pack_into("<H", buf, 0, S)
        buf[4:4 + 194] = MAGIC
        x = S // 128 - 1
        buf[198] = 0x55 if x % 2 == 0 else 0xD5
        buf[199] = (x // 2 + 0xBA) & 0xFF
        buf[200:202] = b"\x2F\x00"
        layout[f"p{pi}.size"] = (P + 0, 2)
        layout[f"p{pi}.magic"] = (P + 4, 194)
        # inactive volume entries: name blanks, type 0
        for slot in range(VOL_N):
            o = 202 + 16 * slot
            buf[o:o + 12] = bytes([0x0A]) * 12
        for vi, vol in enumerate(part["volumes"]):
            slot = vol.get("slot", vi)
            o = 202 + 16 * slot
            who = f"p{pi}.vol{vi}"
            buf[o:o + 12] = akai_name(vol["name"])
            struct.pack_into("<HH", buf, o + 12, vol.get("type_raw", vol.get("type", 3)), vol["dir"]["chain"][0])
            layout[who + ".entry"] = (P + o, 16)
            dchain = vol["dir"]["chain"]
            if vol.get("alias"):
                continue        # a second volume entry naming the directory of an earlier volume: nothing more to write
            if vol["dir"]["mode"] == "reserved":
                assert all(b == a + 1 for a, b in zip(dchain, dchain[1:])), "reserved run must be consecutive"
                flag = vol["dir"].get("flag", RES)
                for c in dchain:
                    claim(c, who + ".dir")
                    sat[c] = flag
            else:
                link(dchain, who + ".dir")
            table = bytearray()
            for fi, f in enumerate(vol["files"]):
                fwho = f"{who}.file{fi}"
                data = f["data"]
                size = f.get("size", len(data))
                layout[fwho + ".entry"] = ("dir", len(table), 24, who)
                table += file_entry(f["name"], f["ftype"], size, f["chain"][0])
                if not f.get("alias"):      # (alias: a second directory entry naming the chain of an earlier file)
                    link(f["chain"], fwho)
                    put(f["chain"], data, fwho)
                layout[fwho + ".data"] = (P + f["chain"][0] * SECTOR, min(len(data), SECTOR))
            if vol.get("terminator", True):
                table += terminator_entry()
            put(dchain, bytes(table), who + ".dir")
            # resolve directory-relative layout entries to absolute offsets
            for k, v in list(layout.items()):
                if isinstance(v, tuple) and v and v[0] == "dir" and v[3] == who:
                    off = v[1]
                    sec = dchain[off // SECTOR]
                    assert off % SECTOR + 24 <= SECTOR or True
                    layout[k] = (P + sec * SECTOR + off % SECTOR, v[2])
        # reserved runs must be followed by a non-reserved word (else they merge)
        for vol in part["volumes"]:
            if vol["dir"]["mode"] == "reserved":
                nxt = vol["dir"]["chain"][-1] + 1
                assert sat[nxt] not in (RES, RES2), "reserved run would merge with the next one"
        for i, w in enumerate(sat):
            struct.pack_into("<H", buf, 202 + VOL_N * 16 + 2 * i, w)
        layout[f"p{pi}.sat"] = (P + 202 + VOL_N * 16, SAT_N * 2)
        layout[f"p{pi}.used_sectors"] = sorted(used)
        out += buf
    out += bytes(model.get("trailing", 0))
    return bytes(out), layout


def sat_word_offset(layout, pi, sector):
    return layout[f"p{pi}.sat"][0] + 2 * sector


# ----------------------------------------------------------------------------- helpers for models
def mk_sample(name, sid_seq, nwords, start=0, end=None, rate=44100, sid=3, ftype=0xF3, chain=None, **hdr):
    """Convenience: a sample file dict with position-coded PCM. `sid_seq` selects the PCM sequence."""
    words = pcm_words(sid_seq, nwords)
    end = nwords if end is None else end
    s = dict(sid=sid, sname=name, count=nwords, start=start, end=end, rate=rate)
    s.update(hdr)
    f = {"name": name, "ftype": ftype, "data": sample_file(s, words), "kind": "sample",
         "words": words, "start": start, "end": end, "rate": rate, "seq": sid_seq}
    if chain is not None:
        f["chain"] = chain
    return f


def expected_exports(model, partition_letters="ABCDEFGHIJKLMNOPQRSTUVWXYZ" + "?" * 80):
    """Expected export tree for images with plain, collision-free names and no L/R pairs:
    {relative path: (channels, rate, pcm bytes)}"""
    exp = {}
    for pi, part in enumerate(model["partitions"]):
        for vol in part["volumes"]:
            if vol.get("type", 3) & 3 == 0:
                continue
            for f in vol["files"]:
                if f.get("kind") != "sample":
                    continue
                w = f["words"][f["start"]:f["end"]]
                rate = f["rate"] or 44100
                exp[f"{partition_letters[pi]}/{vol['name'].strip()}/{f['name'].strip()}.wav"] = (1, rate, words_bytes(w))
    return exp


# ----------------------------------------------------------------------------- compact specs
def words_for_sectors(m):
    """A word count whose sample file (140-byte header + PCM) needs exactly m sectors."""
    return ((m - 1) * SECTOR + 100 - 140) // 2 if m > 1 else 50


def model_from_spec(spec):
    """spec (JSON-able, no PCM) -> full logical model for build_akai.
    spec = {"parts": [{"size": S?, "hdr_sat": ..., "vols": [{"name", "type", "slot"?, "dirmode", "dir": [...],
             "files": [{"name", "kind": "sample"|"raw", "ftype", "n", "start", "end", "rate", "sid", "chain",
                        "seq", "hdr": {...}, "raw_len"}], "pairs": [[iL, iR, stem]]}]}], "trailing": n}
    """
    model = {"partitions": [], "trailing": spec.get("trailing", 0)}
    for p in spec["parts"]:
        vols = []
        top = FIRST_DATA_SECTOR
        for v in p["vols"]:
            files = []
            for f in v["files"]:
                if f.get("kind", "sample") == "sample":
                    n = f["n"]
                    ff = mk_sample(f["name"], f["seq"], n, f.get("start", 0), f.get("end", n),
                                   rate=f.get("rate", 44100), sid=f.get("sid", 3),
                                   ftype=f.get("ftype", 0xF3), chain=f["chain"], **f.get("hdr", {}))
                else:
                    data = f.get("data")
                    if data is None:
                        data = bytes((i * 13 + 5) & 0xFF for i in range(f.get("raw_len", 64)))
                    elif isinstance(data, str):
                        data = bytes.fromhex(data)
                    ff = {"name": f["name"], "ftype": f["ftype"], "chain": f["chain"], "data": data, "kind": "raw"}
                if "size" in f:
                    ff["size"] = f["size"]
                if f.get("alias"):
                    ff["alias"] = True
                files.append(ff)
                top = max(top, max(f["chain"]) + 1)
            top = max(top, max(v["dir"]) + 1)
            vol = {"name": v["name"], "type": v.get("type", 3), "dir": {"mode": v.get("dirmode", "linked"),
                   "chain": v["dir"]}, "files": files, "pairs": v.get("pairs", []),
                   "terminator": v.get("terminator", True)}
            if "slot" in v:
                vol["slot"] = v["slot"]
            if v.get("alias"):
                vol["alias"] = True
            if "type_raw" in v:
                vol["type_raw"] = v["type_raw"]
            vols.append(vol)
        model["partitions"].append({"size": p.get("size", top + 1), "hdr_sat": p.get("hdr_sat", RES), "volumes": vols})
    return model


def interleave2(a: bytes, b: bytes) -> bytes:
    n = min(len(a), len(b)) // 2
    out = bytearray()
    for i in range(n):
        out += a[2 * i:2 * i + 2] + b[2 * i:2 * i + 2]
    return bytes(out)


def expected_exports_pairs(model, partition_letters="ABCDEFGHIJKLMNOPQRSTUVWXYZ" + "?" * 80):
    """Like expected_exports, with explicitly declared equal-length L/R pairs merged into stereo files."""
    exp = {}
    for pi, part in enumerate(model["partitions"]):
        for vol in part["volumes"]:
            if vol.get("type", 3) & 3 == 0:
                continue
            paired = {}
            for iL, iR, stem in vol.get("pairs", []):
                paired[iL] = paired[iR] = (iL, iR, stem)
            done = set()
            for i, f in enumerate(vol["files"]):
                if f.get("kind") != "sample" or i in done:
                    continue
                base = f"{partition_letters[pi]}/{vol['name'].strip()}/"
                if i in paired:
                    iL, iR, stem = paired[i]
                    fl, fr = vol["files"][iL], vol["files"][iR]
                    wl = words_bytes(fl["words"][fl["start"]:fl["end"]])
                    wr = words_bytes(fr["words"][fr["start"]:fr["end"]])
                    exp[base + stem + ".wav"] = (2, fl["rate"] or 44100, interleave2(wl, wr))
                    done.update((iL, iR))
                else:
                    w = f["words"][f["start"]:f["end"]]
                    exp[base + f["name"].strip() + ".wav"] = (1, f["rate"] or 44100, words_bytes(w))
    return exp
