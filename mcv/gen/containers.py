"""Container encodings of a disc image: MODE1/2352 raw sectors, Alcohol MDX header, cue -> data track."""
import struct

RAW = 2352
USER = 2048
SYNC = b"\x00" + b"\xFF" * 10 + b"\x00"


def _bcd(x):
    return ((x // 10) << 4) | (x % 10)


def mode1_2352(payload: bytes) -> bytes:
    """12-byte sync, 3-byte id, mode 1, 2048 user bytes, 288 filler; zero-padded last sector."""
    n = -(-len(payload) // USER)
    out = bytearray()
    for i in range(n):
        lba = i + 150
        m, r = divmod(lba, 60 * 75)
        s, f = divmod(r, 75)
        user = payload[i * USER:(i + 1) * USER]
        user = user + bytes(USER - len(user))
        filler = bytes(((i * 17 + k * 3 + 1) & 0xFF) for k in range(288))     # non-zero EDC/ECC stand-in
        out += SYNC + bytes([_bcd(m), _bcd(s), _bcd(f)]) + b"\x01" + user + filler
    return bytes(out)


def mdx(payload: bytes, descriptor: int = 6000, version: bytes = b"\x02\x01") -> bytes:
    """64-byte header (its 64-bit field = end of the payload), the payload, and -- as in real files -- the media descriptor
    BEHIND the payload: `descriptor` non-zero bytes that belong to the wrapper, not to the image"""
    hdr = b"MEDIA DESCRIPTOR" + version + b"\xA9" + b" " * 25 + b"\xFF" * 4 + struct.pack("<Q", 64 + len(payload)) + bytes(8)
    assert len(hdr) == 64
    return hdr + payload + bytes(((k * 11 + 5) % 255) + 1 for k in range(descriptor))


def data_cue(binname, mode="MODE1/2048"):
    return 'FILE "%s" BINARY\n  TRACK 01 %s\n    INDEX 01 00:00:00\n' % (binname, mode)
