"""Setup / self-test: binds the harness to /repo and checks the harness' own parts."""
import sys


def main():
    from mcv.engine import core
    import smpl_extract
    p = smpl_extract.__file__ or ""
    if not p.startswith(core.REPO):
        print(f"selftest: smpl_extract imported from {p}, expected under {core.REPO}", file=sys.stderr)
        return 2
    print(f"selftest: smpl_extract bound to {p}")
    return 0
