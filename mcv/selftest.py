"""Setup / self-test of the harness' own parts (independent of whether smpl_extract is correct)."""
import json
import math
import os
import struct
import subprocess
import sys


def _fail(msg):
    print("selftest FAILED:", msg, file=sys.stderr)
    return 2


from mcv.engine.core import CheckBase, guarded


class _PoolProbe(CheckBase):
    """6 shards: one kills its own process (always), one exhausts its memory inside a guarded case."""
    id = "C00"

    def shards(self):
        return [{"k": k} for k in range(6)]

    def run_shard(self, shard, rep):
        if shard["k"] == 2:
            os.kill(os.getpid(), 9)
        if shard["k"] == 4:
            def grow():
                keep = []
                while True:
                    keep.append(bytearray(64 << 20))
            st, _ = guarded(grow, 30.0)
            rep.case(shard, klass="memory" if st == "hang" else "unexpected-" + st)
            return
        rep.case(shard)


def main():
    from mcv.engine import core
    import smpl_extract
    p = smpl_extract.__file__ or ""
    if not p.startswith(core.REPO):
        return _fail(f"smpl_extract imported from {p}, expected under {core.REPO}")
    print(f"selftest: smpl_extract bound to {p}")

    # --- RIFF walker accepts a hand-made file and rejects broken ones
    from mcv.ref import riff
    data = struct.pack("<4h", 1, -2, 3, -4)
    fmt = struct.pack("<HHIIHH", 1, 2, 44100, 44100 * 4, 4, 16)
    body = b"WAVE" + b"fmt " + struct.pack("<I", 16) + fmt + b"data" + struct.pack("<I", len(data)) + data
    good = b"RIFF" + struct.pack("<I", len(body)) + body
    if riff.validate(good).errors:
        return _fail("RIFF walker rejects a valid file: %r" % riff.validate(good).errors)
    for bad in (good[:-1], good[:4] + struct.pack("<I", len(body) + 1) + good[8:], good.replace(fmt, fmt[:12] + struct.pack("<HH", 2, 16))):
        if not riff.validate(bad).errors:
            return _fail("RIFF walker accepts a broken file")
    if riff.split_channels(data, 2) != [struct.pack("<2h", 1, 3), struct.pack("<2h", -2, -4)]:
        return _fail("split_channels")

    # --- reference chain walkers
    from mcv.ref import chain as RC
    assert RC.link_chain([1, 2, -1], 0) == ([0, 1, 2], "ok")
    assert RC.link_chain([1, 0, -1], 0)[0] is None                      # cycle
    assert RC.link_chain([2, 2, -1], 0)[0] is None                      # cross link
    assert RC.akai_chain([0, 0x4000, 0x4000, 0], 1) == ([1, 2], "ok-run")
    assert RC.akai_chain([0, 3, 0, 0xC000], 1) == ([1, 3], "ok")
    assert RC.akai_chain([0, 3, 0, 0], 1)[0] is None                    # runs into free
    T = [0xFFFA, 0, 3, 0xFFFF, 0, 0, 0, 0]
    assert RC.roland_chain(T, 2) == ([2, 3], "ok")

    # --- stream model
    from mcv.ref.streammodel import RefFile, Reject
    m = RefFile(b"abcdef")
    assert m.apply(["seek", -2, 2]) == 4 and m.apply(["read", 10]) == b"ef" and m.apply(["tell"]) == 6
    r = RefFile(b"abcd", 2)
    try:
        r.apply(["seek", 1, 0])
        return _fail("reversed model accepts an unaligned seek")
    except Reject:
        pass

    # --- naming rules, enumerators
    from mcv.ref import names as N
    assert N.pair_analysis(["A L", "A R", "B"]) == ([(0, 1, "A")], set(), [2])
    assert N.pair_analysis(["A L", "A L", "A R"])[1] == {0, 1, 2}
    assert N.component_errors("..wav") and not N.component_errors("A (2).wav")
    from mcv.ref import filters as RF
    assert sum(1 for _ in RF.compositions(6)) == 32 and all(sum(c) == 6 for c in RF.compositions(6))
    from mcv.checks.c11 import interleavings
    assert sum(1 for _ in interleavings([2, 2, 2])) == math.factorial(6) // 8
    from mcv.ref import fields as F
    h, vals, capped = F.parse_info("X  T\n----\na: 1\nb:\n  c: 2\n  d:\n    d[0]: 3\n")
    assert vals == {"a": "1", "b": "", "b/c": "2", "b/d": "", "b/d/d[0]": "3"}, vals

    # --- writers: layout maps point at what they say
    from mcv.gen import akai as A
    spec = {"parts": [{"vols": [{"name": "VOL", "dir": [3], "files": [{"name": "SMP", "n": 40, "chain": [5], "seq": 1}]}]}]}
    img, lay = A.build_akai(A.model_from_spec(spec))
    o, ln = lay["p0.vol0.file0.entry"]
    if img[o:o + 12] != A.akai_name("SMP") or struct.unpack_from("<H", img, o + 20)[0] != 5:
        return _fail("AKAI layout map: file entry")
    if struct.unpack_from("<H", img, A.sat_word_offset(lay, 0, 5))[0] != 0xC000:
        return _fail("AKAI layout map: SAT word")
    from mcv.gen import roland as R
    model = {"volumes": [{"name": "V", "perfs": [0]}], "performances": {0: {"name": "P", "patches": [0]}},
             "patches": {0: {"name": "PA", "partials": [0]}}, "partials": {0: {"name": "PL", "samples": [0]}},
             "samples": {0: {"name": "S", "chain": [3, 2], "points": [0, 0, 9, 0, 9], "mode": 0, "seq": 1}}}
    rimg, rlay = R.build_roland(model)
    if struct.unpack_from("<H", rimg, R.FAT_OFF + 6)[0] != 2 or struct.unpack_from("<H", rimg, R.FAT_OFF + 4)[0] != 0xFFF8:
        return _fail("Roland writer: FAT words")
    o, _ = rlay["sample0.dir"]
    if rimg[o:o + 1] != b"S" or struct.unpack_from("<H", rimg, o + 28)[0] != 3:
        return _fail("Roland layout map: sample directory record")
    from mcv.gen import cue as Q
    if Q.frames_bytes(5, 9) != Q.bin_bytes(20)[5:14] or Q.msf(4501) != "01:00:01":
        return _fail("cue generator")
    from mcv.gen import containers as C
    w = C.mode1_2352(b"x" * 3000)
    if len(w) != 2 * 2352 or w[16:16 + 2048] != b"x" * 2048 or w[15] != 1:
        return _fail("MODE1/2352 writer")

    # --- worker pool: a worker that is killed, or that exhausts its memory, neither stalls nor silences the run
    for dv in (False, True):
        chk = _PoolProbe("quick", 0)
        chk.death_is_violation = dv
        rep, errors = core.run_check(chk, jobs=3)
        if rep.evaluations != 5 + dv or rep.classes.get("memory") != 1:
            return _fail(f"pool: evaluations={rep.evaluations} classes={dict(rep.classes)}")
        if dv and (errors or rep.viol_sigs.get("worker-died") != 1):
            return _fail(f"pool: dead worker not reported as a violation: {errors} {dict(rep.viol_sigs)}")
        if not dv and (len(errors) != 1 or "died twice" not in errors[0][0]):
            return _fail(f"pool: dead worker not reported as a harness error: {errors}")
    print("selftest: worker pool survives killed workers and memory exhaustion")

    # --- manifest / evidence schemas (when the tooling interpreter is present)
    vt = "/opt/veriftools/pyvenv/bin/python"
    if os.path.exists(vt) and os.path.exists("/root/.vp/MANIFEST.schema.json"):
        code = ("import json,jsonschema,glob,sys\n"
                "jsonschema.validate(json.load(open('%s/MANIFEST.json')), json.load(open('/root/.vp/MANIFEST.schema.json')))\n"
                "s=json.load(open('/root/.vp/EVIDENCE.schema.json'))\n"
                "[jsonschema.validate(json.load(open(f)), s) for f in glob.glob('%s/evidence/*.json')]\n" % (core.VERIF, core.VERIF))
        r = subprocess.run([vt, "-c", code], capture_output=True, text=True)
        if r.returncode != 0:
            return _fail("schema validation: " + r.stderr[-400:])
        print("selftest: MANIFEST.json and evidence files validate against the schemas")
    print("selftest: ok")
    return 0
