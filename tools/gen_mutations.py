#!/usr/bin/env python3
"""Regenerates /verif/MUTATIONS.md from /verif/seeded/*/meta.json and the hand-made list below."""
import glob, json, os
HERE = os.path.dirname(os.path.dirname(os.path.abspath(__file__)))
MANUAL = [
    ("C17", "cuesheet.py: drop re.I from the TITLE regex", "62 pass", "C17 (structure-differs, image-differs)"),
    ("C09", "alcohol/mdf.py: MDF_SECTOR_HEADER_SIZE 16 -> 12", "62 pass", "C09 (raw2352: class differs)"),
    ("C11", "util/stream.py: StreamWrapper.read never re-seeks the substream", "4 tests FAIL (not a valid seed)", "C11 (cdda: disturbed)"),
    ("C20", "akai/sample.py: pitch_offset_semi Int8sl -> Int8ul", "62 pass", "C20 (pitch_semi printed 253, stored -3)"),
    ("C19", "filters/iir.pyx: _c_bound upper clamp 32767 -> 65535 (cdef kernel)", "62 pass (extension not rebuilt)", "C19 (saturation, via the translated source)"),
    ("C19", "filters/fir.pyx: _c_bound_and_fix lower clamp removed (cdef kernel)", "62 pass (extension not rebuilt)", "C19 (saturation)"),
]
rows = []
for d in sorted(glob.glob(os.path.join(HERE, "seeded", "*"))):
    mp = os.path.join(d, "meta.json")
    if not os.path.exists(mp):
        continue
    m = json.load(open(mp))
    files = [l.split()[2][2:] for l in open(os.path.join(d, "patch.diff")) if l.startswith("diff --git")]
    first = ""
    notes = m.get("needs_to_manifest", "")
    for line in notes.splitlines():
        if line.strip() and not line.startswith("#"):
            first = line.strip().lstrip("-* ").replace("|", "/")[:230]
            break
    rows.append((m["name"], m["property"], ", ".join(files), first, m["tests_with_change"].split(",")[0],
                 f"{m['demo_exit_with_change']}/{m['demo_exit_without_change']}", "yes" if m["confirmed"] else "NO",
                 " ".join(m["detected_by_quick"]) or "NONE", m.get("history", "")))
with open(os.path.join(HERE, "MUTATIONS.md"), "w") as f:
    f.write("# Deliberate property-breaking changes and which checks catch them\n\n")
    f.write("Seeded changes written by fresh sub-agents that saw only the property text and a scratch worktree (nothing from /verif). "
            "Each was confirmed here (62 baseline tests pass with the change; the agent's demo fails with it and passes without it), "
            "applied to /repo with `git apply`, checked with the quick tier, and reverted. Files: `seeded/<name>/{patch.diff,demo.py,notes.md,meta.json}`.\n\n")
    f.write("| seed | property | file(s) | what it does / needs to manifest | tests | demo with/without | confirmed | detected by (quick) | history |\n|---|---|---|---|---|---|---|---|---|\n")
    for r in rows:
        f.write("| " + " | ".join(r) + " |\n")
    f.write("\n## Hand-made sanity mutations (applied, checked, reverted)\n\n| property | change | baseline tests | detected by |\n|---|---|---|---|\n")
    for r in MANUAL:
        f.write("| " + " | ".join(r) + " |\n")
print(len(rows), "seeds")
