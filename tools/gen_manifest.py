#!/usr/bin/env python3
"""Regenerates /verif/MANIFEST.json from the table below (checks whose module exists are claimed)."""
import json
import os

HERE = os.path.dirname(os.path.dirname(os.path.abspath(__file__)))

META = {
    "C01": ("exploration", "4 C01",
            "exhaustive small-scope enumeration of AKAI allocation layouts, lengths, header values and tree structures on the real parser+exporter",
            "Independent struct.pack AKAI writer + RIFF walker are trusted; bounds: <=3 partitions, <=7 pool sectors, listed boundary lengths.",
            "bounded exhaustive enumeration of generated images, full ls/export run per image, byte-exact oracle from the logical model"),
    "C02": ("exploration", "4 C02",
            "exhaustive small-scope enumeration of Roland cluster chains, windows per loop mode, header codes and reference topologies",
            "Independent S-7xx writer trusted; bounds: chains <=3 clusters, <=4 samples, single/double topology flips.",
            "bounded exhaustive enumeration of generated images, byte-exact oracle from the logical model"),
    "C03": ("exploration", "4 C03",
            "complete MSF domain for the index arithmetic; all track-count x index-position x bin-length combinations over the stated alphabets",
            "cue writer / position-coded bin trusted; <=4 tracks; index positions from the listed set.",
            "bounded exhaustive enumeration of cue/bin pairs against a bytes-slice oracle"),
    "C04": ("exploration", "4 C04",
            "every WAV produced by structural sweeps re-walked by an independent RIFF walker; header byte products enumerated completely at the narrow seam",
            "RIFF walker + stdlib wave trusted.",
            "bounded exhaustive enumeration of header values, independent RIFF chunk walker"),
    "C05": ("exploration", "4 C05",
            "all ordered tuples of sibling names over a near-collision alphabet (k<=3 quick, k<=4 thorough) on real AKAI volumes / Roland performances",
            "statement-level pairing definition in the oracle; ambiguous multisets only required to conserve samples.",
            "exhaustive enumeration of ordered name tuples, position-coded PCM conservation oracle"),
    "C06": ("exploration", "4 C06",
            "all ordered tuples of hostile/near-colliding names at every directory level of AKAI, Roland and CDDA images; disk state inspected",
            "scratch directory on /dev/shm; parents watched for escapes.",
            "exhaustive enumeration of name tuples, on-disk path-set oracle"),
    "C07": ("model_checking", "4 C07",
            "complete enumeration of all link tables / raw SAT / raw FAT word tables over n sectors and every start sector; every transition is a link step of the implementation, non-termination detected by deterministic step budgets",
            "Roland FAT size rebound to 16 entries for the closed enumeration, conformance to the 65536-entry table by embedding; step budget c*n+k.",
            "explicit enumeration of all tables x starts (bounded model checking of the chain resolver) against a reference chain walker"),
    "C08": ("model_checking", "4 C08",
            "explicit state graph of each stream configuration closed to a fixed point on the real classes, plus all un-deduplicated sequences to depth d",
            "canonical state = all scalar attributes of every layer; deep-copy preserves sharing; tiny sector sizes via rebinding module constants (real 2352/2048 constants also explored).",
            "explicit-state BFS over operation histories with canonical state hashing, reference-model comparison on every edge"),
    "C09": ("exploration", "4 C09",
            "every image of a case library wrapped in all five container encodings; ls at every node and exported trees compared",
            "container writers (MODE1/2352, MDX, cue) trusted.",
            "exhaustive metamorphic enumeration image x container x trailing-bytes"),
    "C10": ("exploration", "4 C10",
            "every node of generated trees addressed through every separator/blank/case variant; all bounded token sequences over a confusable alphabet as non-paths",
            "statement-level path model.",
            "exhaustive enumeration of path strings over bounded token alphabets"),
    "C11": ("model_checking", "4 C11",
            "all interleavings of per-stream call programs (reads, seeks, lazy directory realisations) over one shared handle, against isolated runs",
            "calls are atomic (no threads in the library); participants and programs bounded as stated.",
            "exhaustive schedule enumeration (all interleavings / context-switch bounded) with isolated-run oracle"),
    "C12": ("exploration", "4 C12",
            "complete product of streams x channels x width x byte order x lengths x block size x host order",
            "pcm reference decoder trusted.",
            "complete product enumeration against an integer de/interleave oracle"),
    "C13": ("fault_enumeration", "4 C13",
            "all files of <=2 bytes, constant fills, and complete (site x value) single-fault menus over AKAI/Roland/cue structures (pairs in thorough), each run under CPU/memory watchdogs",
            "loose budgets (>=5 s CPU, 100x clean run); arbitrary bytes beyond the menus not covered.",
            "exhaustive single/double fault enumeration with termination watchdog"),
    "C14": ("fault_enumeration", "4 C14",
            "every byte of one directory entry x value menu (all 256 values in thorough), siblings compared with the undamaged run",
            "sibling names >=2 edits apart.",
            "exhaustive single-byte fault enumeration, sibling-preservation oracle"),
    "C15": ("fault_enumeration", "4 C15",
            "every structure boundary +-1 and strided interior cut points (every byte in thorough for the smallest images)",
            "layout map from the writer decides which files must be complete.",
            "exhaustive crash-point (truncation) enumeration, prefix oracle"),
    "C16": ("model_checking", "4 C16",
            "all operation histories (ls at every path, invalid paths, export) up to length 2/3 on one live image object versus fresh objects",
            "observable = stdout text and exported tree digest.",
            "exhaustive history enumeration on one live object with fresh-object differential oracle"),
    "C17": ("exploration", "4 C17",
            "canonical sheets x all keyword-case combinations x padding x every single (pairs in thorough) insertion of blank/unknown lines at every admissible position",
            "cue writer trusted.",
            "exhaustive enumeration of cosmetic transformations, structural equality oracle"),
    "C18": ("exploration", "4 C18",
            "complete domains: all 256 bytes per codec, all note spellings, all tuning bytes, all short strings",
            "none beyond the statement.",
            "complete domain enumeration"),
    "C19": ("model_checking", "4 C19",
            "all ordered block splits (all schedules of process calls) of all short signals over an extreme-value alphabet, each followed by flush, against the one-block run and a float reference",
            "pyx sources are interpreted by a restricted translator when Cython is absent; compiled modules checked as imported.",
            "exhaustive enumeration of all compositions of each signal (schedules of process() calls)"),
    "C20": ("exploration", "4 C20",
            "every header field deviated through its boundary values from two distinct bases; printed tree parsed back",
            "field tables written from the format description.",
            "deviation-bounded exhaustive enumeration over every header field"),
}


def main():
    checks = []
    na = []
    for cid in sorted(META):
        level, ref, text, note, tech = META[cid]
        if os.path.exists(os.path.join(HERE, "mcv", "checks", cid.lower() + ".py")):
            checks.append({
                "property_id": cid,
                "quick_cmd": f"./check {cid} --tier quick",
                "thorough_cmd": f"./check {cid} --tier thorough",
                "evidence_file": f"/verif/evidence/{cid}.json",
                "replay_cmd_template": f"./check {cid} --replay {{path}}",
                "engine": "mcv",
                "level_claimed": {"category": level, "text": text, "design_ref": ref},
                "level_note": note,
                "technique": tech,
            })
        else:
            na.append({"property_id": cid, "reason": "check not built yet in this state of /verif (bounded exhaustive design in DESIGN.md section " + ref + ")"})
    man = {
        "version": 1,
        "setup_cmd": "./check --setup",
        "hooks": {
            "guard": "SMPL_EXTRACT_VERIF",
            "enable": "no source hooks: checks import /repo's working tree directly (pure Python); SMPL_EXTRACT_VERIF=1 is exported by ./check but nothing in /repo reads it",
            "baseline_off_cmd": "cd /repo && /venv/bin/python -m pytest -ra -q -p no:cacheprovider --timeout=900 --continue-on-collection-errors",
            "source_commits": [],
            "add_only": True,
        },
        "engines": [{
            "name": "mcv",
            "path": "/verif/mcv",
            "serves_properties": [c["property_id"] for c in checks],
            "kind_free_text": "hand-written explicit-state / bounded-exhaustive explorer in Python driving the real smpl_extract objects (worker pool, watchdogs, independent image writers, reference models)",
        }],
        "checks": checks,
        "not_applicable": na,
        "notes": "All checks: exit 0 = held on everything explored; exit 1 + VIOLATION line = confirmed (replayed in a fresh process) violation; exit 2 = harness error. See DESIGN.md.",
    }
    with open(os.path.join(HERE, "MANIFEST.json"), "w") as f:
        json.dump(man, f, indent=1)
    print(f"MANIFEST.json: {len(checks)} checks, {len(na)} not_applicable")


if __name__ == "__main__":
    main()
