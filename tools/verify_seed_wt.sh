#!/bin/bash
# usage: tools/verify_seed_wt.sh <property id> <worktree> <name> [ids to run, default: the property id]
# Like verify_seed.sh, but the checks run against the sub-agent's worktree itself (VERIF_REPO), so /repo is never touched
# and several seeds can be verified while other runs use /repo.
pid=$1; wt=$2; name=$3; shift 3
ids=${@:-$pid}
out=/verif/seeded/$name; mkdir -p "$out"
cd "$wt" || exit 2
git diff -- smpl_extract > "$out/patch.diff"
[ -s "$out/patch.diff" ] || { echo "empty patch"; exit 2; }
cp _out/demo.py "$out/demo.py"; cp _out/notes.md "$out/notes.md" 2>/dev/null
tests_with=$(/venv/bin/python -m pytest -q -p no:cacheprovider tests 2>&1 | tail -1)
/venv/bin/python _out/demo.py > "$out/demo_with.txt" 2>&1; demo_with=$?
git apply -R --whitespace=nowarn "$out/patch.diff"
/venv/bin/python _out/demo.py > "$out/demo_without.txt" 2>&1; demo_without=$?
git apply --whitespace=nowarn "$out/patch.diff"
echo "tests with change: $tests_with"
echo "demo exit with change: $demo_with ; without: $demo_without"
det=""
cd /verif
for id in $ids; do
  o=$(VERIF_REPO=$wt VERIF_EVIDENCE_DIR=/tmp/wt/vev-$name VERIF_REPLAY_DIR=/tmp/wt/vrp-$name VERIF_JOBS=${VERIFY_JOBS:-8} ./check "$id" --tier quick 2>&1); code=$?
  if [ $code -eq 1 ]; then det="$det $id"; echo "$id DETECTS: $(echo "$o" | grep -m1 -A1 VIOLATION | tr '\n' ' ' | cut -c1-300)";
  elif [ $code -ne 0 ]; then echo "$id HARNESS-ERROR(exit $code): $(echo "$o" | tail -3 | tr '\n' ' ' | cut -c1-300)"; fi
done
rm -rf /tmp/wt/vev-$name /tmp/wt/vrp-$name
echo "detected by:${det:- NONE}"
python3 - "$pid" "$name" "$tests_with" "$demo_with" "$demo_without" "$det" "$ids" <<'PY'
import json, sys
pid, name, tw, dw, dwo, det, ids = sys.argv[1:8]
meta = {"property": pid, "name": name, "tests_with_change": tw, "demo_exit_with_change": int(dw), "demo_exit_without_change": int(dwo),
        "confirmed": ("62 passed" in tw and int(dw) != 0 and int(dwo) == 0),
        "checks_run_quick": ids.split(), "detected_by_quick": det.split() or ["NONE"],
        "needs_to_manifest": open(f"/verif/seeded/{name}/notes.md").read()[:1500] if __import__("os").path.exists(f"/verif/seeded/{name}/notes.md") else ""}
json.dump(meta, open(f"/verif/seeded/{name}/meta.json", "w"), indent=1)
print("confirmed:", meta["confirmed"], "detected_by:", meta["detected_by_quick"])
PY
