#!/usr/bin/env python3
"""usage: tools/refresh_bounds_table.py <run_all log>...   -- rewrites the rows of DESIGN 9.1 in place: the quick cell from
/verif/evidence/*.json, the thorough cell from `tools/run_all.sh thorough` summary lines found in the given logs (later logs
win; a check without such a line keeps its cell), the description from gen_bounds_table.WHAT."""
import json, os, re, sys
sys.path.insert(0, os.path.dirname(os.path.abspath(__file__)))
import gen_bounds_table as G

thor = {}
for log in sys.argv[1:]:
    for line in open(log):
        m = re.match(r"(C\d\d) exit=0 .* tier=thorough .*evaluations=(\d+) .*states=(\d+) transitions=(\d+) violations=0 wall=([\d.]+)s", line)
        if m:
            cid, ev, st, tr, w = m.group(1), int(m.group(2)), int(m.group(3)), int(m.group(4)), float(m.group(5))
            thor[cid] = G.cell({"coverage": {"evaluations": ev, "states": st, "transitions": tr}, "wall_s": w})
p = "/verif/DESIGN.md"
s = open(p).read().split("\n")
for i, l in enumerate(s):
    m = re.match(r"\| (C\d\d) \| ([^|]*) \| ([^|]*) \| ", l)
    if m and m.group(1) in G.WHAT and "quick" not in l:
        cid = m.group(1)
        dq = json.load(open(f"/verif/evidence/{cid}.json"))
        s[i] = "| %s | %s | %s | %s |" % (cid, G.cell(dq), thor.get(cid, m.group(3)), G.WHAT[cid])
open(p, "w").write("\n".join(s))
print("thorough cells refreshed:", sorted(thor))
