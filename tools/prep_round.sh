#!/bin/bash
# usage: tools/prep_round.sh [ids...]  -- fresh worktrees + TASK.md for a round of seeding agents
cd /verif
ids=${@:-$(./check --list)}
for id in $ids; do
  git -C /repo worktree remove --force /tmp/wt/$id 2>/dev/null
  git -C /repo worktree add -q --detach /tmp/wt/$id HEAD && cp /repo/smpl_extract/filters/*.so /tmp/wt/$id/smpl_extract/filters/ && mkdir -p /tmp/wt/$id/_out && python3 tools/agent_prompt.py $id /tmp/wt/$id > /tmp/wt/$id/_out/TASK.md
done
cat >> /tmp/wt/C19/_out/TASK.md <<'EOT'

SPECIAL NOTE FOR THIS PROPERTY (C19): the filter classes live in Cython sources (smpl_extract/filters/fir.pyx, iir.pyx) plus the pure-Python presets in smpl_extract/filters/common.py. Cython is not installed, so the compiled extension modules (*.so, already present) will NOT change when you edit a .pyx -- the existing tests therefore keep passing trivially. For this property you MAY (and should) edit the Python-level code inside the .pyx files (class methods process / get_remaining / reset_state / __init__), or the cdef kernels, or common.py. Because the edit cannot be compiled, your demo.py must execute the CURRENT SOURCE TEXT rather than the compiled module: e.g. read the .pyx, cut out the relevant pure-Python class block and exec() it; for classes that call compiled kernels (e.g. IirFilter.process -> _c_process) import those kernels from the compiled module smpl_extract.filters.iir and put them in the exec namespace; if you edit a cdef kernel, hand-translate that kernel to Python inside the demo. Note: do not build an IirFilter whose A has a single coefficient with the compiled module (the old binary corrupts memory for that input).
EOT
git -C /repo worktree prune; ls /tmp/wt | tr '\n' ' '
