#!/bin/bash
# usage: tools/check_seeds_apply.sh  -- does every seeded/<name>/patch.diff still apply to /repo's HEAD? (a "fix:" commit may
# touch the lines a seed changes; such seeds are carried over by hand, see DESIGN 9.4)  exit 1 if one does not.
wt=/tmp/wt/apply-check
git -C /repo worktree add -q --detach $wt HEAD || exit 2
rc=0
cd $wt
for n in $(ls /verif/seeded); do
  git apply --check --whitespace=nowarn /verif/seeded/$n/patch.diff 2>/dev/null || { echo "NOAPPLY $n"; rc=1; }
done
cd /verif; git -C /repo worktree remove --force $wt
exit $rc
