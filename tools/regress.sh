#!/bin/bash
# usage: tools/regress.sh [seed names...]  -- every seed against the check(s) recorded as detecting it (own property first), quick tier,
# in a private worktree (VERIF_REPO); /repo is untouched.  Prints one line per seed; exit 1 if a seed is no longer detected.
cd /verif
names=${@:-$(ls seeded)}
rc=0
for n in $names; do
  wt=/tmp/wt/rg-$n
  git -C /repo worktree add -q --detach $wt HEAD 2>/dev/null && cp /repo/smpl_extract/filters/*.so $wt/smpl_extract/filters/
  (cd $wt && git apply --whitespace=nowarn /verif/seeded/$n/patch.diff) || { echo "$n: patch does not apply"; git -C /repo worktree remove --force $wt; rc=1; continue; }
  ids=$(python3 -c "
import json,sys
m=json.load(open('/verif/seeded/$n/meta.json'))
d=[x for x in m.get('detected_by_quick',[]) if x!='NONE']
print(' '.join(d[:2]) if d else m['property'])")
  det=""
  for id in $ids; do
    VERIF_REPO=$wt VERIF_EVIDENCE_DIR=/tmp/wt/rgev-$n VERIF_REPLAY_DIR=/tmp/wt/rgrp-$n VERIF_JOBS=${REGRESS_JOBS:-8} ./check $id --tier quick >/tmp/wt/rgout-$n.txt 2>&1; c=$?
    [ $c -eq 1 ] && det="$det $id"
    [ $c -ne 0 ] && [ $c -ne 1 ] && det="$det $id(exit$c)"
  done
  echo "$n expected: $ids ; detected:${det:- NONE}"
  [ "$(echo $det)" == "$(echo $ids)" ] || rc=1
  git -C /repo worktree remove --force $wt; rm -rf /tmp/wt/rgev-$n /tmp/wt/rgrp-$n /tmp/wt/rgout-$n.txt
done
exit $rc
