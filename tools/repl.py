#!/usr/bin/env python3
"""repl.py FILE  (reads OLD/NEW blocks from a python file given as argv[2]) -- newline-preserving replace."""
import sys
def apply(path, pairs):
    raw = open(path, "rb").read()
    crlf = b"\r\n" in raw
    s = raw.decode("utf-8")
    if crlf:
        s = s.replace("\r\n", "\n")
    for old, new in pairs:
        assert s.count(old) == 1, (path, s.count(old), old[:60])
        s = s.replace(old, new)
    if crlf:
        s = s.replace("\n", "\r\n")
    open(path, "wb").write(s.encode("utf-8"))
if __name__ == "__main__":
    ns = {}
    exec(open(sys.argv[2]).read(), ns)
    apply(sys.argv[1], ns["PAIRS"])
