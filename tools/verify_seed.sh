#!/bin/bash
# usage: tools/verify_seed.sh <property id> <worktree> <name> [ids to run, default: the property id]
# Confirms a sub-agent's seeded change (tests pass with it, demo fails with / passes without), runs the checks on /repo
# with the patch applied, stores everything under /verif/seeded/<name>/.
pid=$1; wt=$2; name=$3; shift 3
ids=${@:-$pid}
out=/verif/seeded/$name; mkdir -p "$out"
cd "$wt" || exit 2
git diff -- smpl_extract > "$out/patch.diff"
[ -s "$out/patch.diff" ] || { echo "empty patch"; exit 2; }
cp _out/demo.py "$out/demo.py"; cp _out/notes.md "$out/notes.md" 2>/dev/null
tests_with=$(/venv/bin/python -m pytest -q -p no:cacheprovider tests 2>&1 | tail -1)
/venv/bin/python _out/demo.py > "$out/demo_with.txt" 2>&1; demo_with=$?
# (git stash is shared by all worktrees of a repository: never use it here)
git apply -R --whitespace=nowarn "$out/patch.diff"
/venv/bin/python _out/demo.py > "$out/demo_without.txt" 2>&1; demo_without=$?
git apply --whitespace=nowarn "$out/patch.diff"
echo "tests with change: $tests_with"
echo "demo exit with change: $demo_with ; without: $demo_without"
res=$(/verif/tools/seed_eval.sh "$out/patch.diff" quick $ids 2>&1)
echo "$res"
det=$(echo "$res" | grep "^detected by:" | sed 's/detected by://')
python3 - "$pid" "$name" "$tests_with" "$demo_with" "$demo_without" "$det" "$ids" <<'PY'
import json, sys
pid, name, tw, dw, dwo, det, ids = sys.argv[1:8]
meta = {"property": pid, "name": name, "tests_with_change": tw, "demo_exit_with_change": int(dw), "demo_exit_without_change": int(dwo),
        "confirmed": ("62 passed" in tw and int(dw) != 0 and int(dwo) == 0),
        "checks_run_quick": ids.split(), "detected_by_quick": det.split(),
        "needs_to_manifest": open(f"/verif/seeded/{name}/notes.md").read()[:1500] if __import__("os").path.exists(f"/verif/seeded/{name}/notes.md") else ""}
json.dump(meta, open(f"/verif/seeded/{name}/meta.json", "w"), indent=1)
print("confirmed:", meta["confirmed"], "detected_by:", meta["detected_by_quick"])
PY
