#!/usr/bin/env python3
# usage: tools/set_history.py <seed name> "<history text>" [detecting check ids...]  -- records how a first-missed seed came to be detected
import json, sys
name, hist, det = sys.argv[1], sys.argv[2], sys.argv[3:]
p = f"/verif/seeded/{name}/meta.json"
m = json.load(open(p))
m["history"] = hist
if det:
    m["detected_by_quick"] = det
json.dump(m, open(p, "w"), indent=1)
print(name, m["detected_by_quick"])
