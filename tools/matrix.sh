#!/bin/bash
# usage: tools/matrix.sh [seed names...]   -- every seed against ALL checks (quick), in a private worktree (VERIF_REPO), /repo untouched
cd /verif
names=${@:-$(ls seeded)}
for n in $names; do
  wt=/tmp/wt/matrix-$n
  git -C /repo worktree add -q --detach $wt HEAD && cp /repo/smpl_extract/filters/*.so $wt/smpl_extract/filters/
  (cd $wt && git apply --whitespace=nowarn /verif/seeded/$n/patch.diff) || { echo "$n: patch does not apply"; git -C /repo worktree remove --force $wt; continue; }
  det=""; err=""
  for id in $(./check --list); do
    VERIF_REPO=$wt VERIF_EVIDENCE_DIR=/tmp/wt/ev-$n VERIF_REPLAY_DIR=/tmp/wt/rp-$n ./check $id --tier quick >/tmp/wt/out-$n-$id.txt 2>&1; c=$?
    if [ $c -eq 1 ]; then det="$det $id"; elif [ $c -ne 0 ]; then err="$err $id"; fi
  done
  echo "$n detected_by:$det harness_errors:${err:- none}"
  python3 - "$n" "$det" "$err" <<'PY'
import json, sys
n, det, err = sys.argv[1:4]
p = f"/verif/seeded/{n}/meta.json"; m = json.load(open(p)); m["matrix_all_checks_quick"] = det.split(); m["matrix_harness_errors"] = err.split(); json.dump(m, open(p, "w"), indent=1)
PY
  git -C /repo worktree remove --force $wt; rm -rf /tmp/wt/ev-$n /tmp/wt/rp-$n /tmp/wt/out-$n-*.txt
done
