#!/usr/bin/env python3
"""usage: tools/gen_bounds_table.py <quick evidence dir> <thorough evidence dir>
Prints the table of DESIGN 9.1 (measured bounds) from evidence files of both tiers."""
import json
import os
import sys

WHAT = {
    "C01": "all injective sector assignments of pools <= 7; partition sizes 6..139 (399); 14 pair lengths x 5 rates; 13 name families x 5 volume names; 8 sets of equal sibling volume names; slot sets; 63..510-file volumes",
    "C02": "all cluster assignments m<=3; all single / double edge flips; all 4-slot assignments; sparse / full / highest-slot lists under both count conventions; shared chains; fine bytes; blank names at every level",
    "C03": "complete MSF domain; all position tuples over P, 10 tail residues; track numberings (incl. 3-4 digit numbers) and mode spellings; 10 title families; 50/98/99/100/103-track sheets up to 80 KB",
    "C04": "key x semitone x cents (thorough: full 256^3); every sample rate 0..65535 mono + stereo; 100 unequal pair lengths; short sources; C01's name families",
    "C05": "all ordered k<=3 / k<=4 tuples over 14 AKAI names, k<=2 / 3 over 13 Roland names (+ header-name, flavour, sanitised-form, dot-stem variants); 201-entry directories, every adjacent position",
    "C06": "pairs / triples over 24+15+29 names, 5 levels + orphan volume; channel-letter triples; blank-run and dot-stem tuples; 26..34 partitions; 201-entry directories; listed-first objects; CDDA tracks without frames; one raw name as file and as directory",
    "C07": "ALL tables: links n<=6, AKAI SAT n<=6 over 13 word values, Roland FAT 12^5 (+ header words x version flags); chain lengths 1..65523 in real-size tables; table-level streams (Roland files from every cluster offset, highest cluster numbers on a 600 MB virtual disk); tables through the real image parser",
    "C08": "single-view stacks to fixed point (2 real-size graphs depth 3 in quick); 23 two-view product graphs; 20 overhanging windows, all op sequences <= 3 / 4; 7 real-size stacks under long and small-consecutive reads",
    "C09": "case library x 11 containers x trailing sizes; sector counts 0..127 (511); dumps ending with the last used sector; long / multi-FILE / renamed sheets",
    "C10": "all variants per node (3 blank styles); all token sequences <=2; extensions, multi-colon tokens, doubled separators of every good path; programs and unlisted file kinds; titles of 255..302 characters",
    "C11": "ALL interleavings per configuration (BytesIO and real files, damaged / incomplete images, two streams of one sample, two entries on one chain, two volume entries on one directory); baselines from one pristine subprocess per participant",
    "C12": "complete product, both host byte orders",
    "C13": "all <=2-byte files, all single faults, all table-fault pairs, program fault pairs / triples, containers, Roland ID-area text fields (540), big text files, long titles, wide tables; growth at n / 2n for 12 families (generated code counted)",
    "C14": "every byte x 15 values / x 256 values; whole-field boundary values incl. whole name fields; names one byte from a sibling (exactly / up to a blank run) and from a pair's stem",
    "C15": "every byte of the 64 KiB AKAI image and of the bin; every 16th byte of the larger images; raw-sector delivery of the big image; colliding volumes stored in reverse table order",
    "C16": "all histories <=2 / <=3 on 9 subjects (incl. a damaged and an incomplete image); cross-image histories",
    "C17": "all single and all pairs of transformations (7 pads, 24 unknown lines); bulk insertions up to 300 000 lines",
    "C18": "complete domains (functions, call sequences, construct adapters)",
    "C19": "ALL 2^(n-1) splits, n<=12; zero-tap filters; real-size signals under block menus; after reset and after flush",
    "C20": "every field x boundary values; adjacent pairs; names over all 41 characters in every position class; dense CDDA positions; siblings differing only in letter case",
}


def fmt(n):
    if n >= 1_000_000:
        return "%.2f M" % (n / 1e6)
    return f"{n:,}".replace(",", " ")


def wall(s):
    return "%d s" % round(s) if s < 120 else "%.1f min" % (s / 60)


def cell(d):
    c = d["coverage"]
    t = fmt(c["evaluations"])
    if c.get("states"):
        t += " (%s states / %s transitions)" % (fmt(c["states"]), fmt(c.get("transitions", 0)))
    return "%s (%s)" % (t, wall(d["wall_s"]))


def main():
    q, t = sys.argv[1], sys.argv[2]
    print("| id | quick: cases (wall) | thorough: cases (wall) | what is closed / exhaustive |")
    print("|---|---|---|---|")
    for i in range(1, 21):
        cid = "C%02d" % i
        dq = json.load(open(os.path.join(q, cid + ".json")))
        dt = json.load(open(os.path.join(t, cid + ".json")))
        assert dq["tier"] == "quick" and dt["tier"] == "thorough", (cid, dq["tier"], dt["tier"])
        print("| %s | %s | %s | %s |" % (cid, cell(dq), cell(dt), WHAT[cid]))


if __name__ == "__main__":
    main()
