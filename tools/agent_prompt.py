#!/usr/bin/env python3
import json, sys
pid, wt = sys.argv[1], sys.argv[2]
import glob, os
avoid = []
for d in sorted(glob.glob(f"/verif/seeded/{pid}-*")):
    try:
        files = [l.split()[2][2:] for l in open(os.path.join(d, "patch.diff")) if l.startswith("diff --git")]
        first = next((l.strip().lstrip("-* ") for l in open(os.path.join(d, "notes.md")) if l.strip() and not l.startswith("#")), "")
        avoid.append(f"  - ({', '.join(files)}) {first[:300]}")
    except Exception:
        pass
avoid_text = ("ALREADY TAKEN -- earlier volunteers seeded the following; do something DIFFERENT (another function, preferably another file, another mechanism):\n" + "\n".join(avoid) + "\n\n") if avoid else ""
for l in open('/verif/properties.jsonl'):
    p = json.loads(l)
    if p['id'] == pid:
        break
print(f"""You are helping to test a verification harness by seeding a realistic defect. Work ONLY inside the git worktree {wt} (a checkout of the Python project smpl_extract: a CLI/library that parses AKAI S1000/S3000, Roland S-7xx and CDDA disc images and exports samples as WAV). Do not read or touch /verif or /repo.

PROPERTY ({p['id']}: {p['title']}):
{p['statement']}

It is meant to hold over: {p['quantifier']['text']}
Code that is supposed to make it hold lives in: {', '.join(p['anchors']['files'])}

YOUR TASK: make ONE small, realistic source change (the kind of slip or 'optimisation' a maintainer could plausibly commit) under {wt}/smpl_extract that BREAKS this property, while
  (a) the project still imports and its existing test suite still passes unchanged:  cd {wt} && /venv/bin/python -m pytest -q -p no:cacheprovider tests     (62 tests must pass), and
  (b) ordinary use does not expose it at once: it must need something specific to manifest -- an unusual but legal input, a particular allocation/ordering/length, a multi-step sequence of operations, a fault at a particular point, or two cooperating sites that each look fine alone.
Do not edit the tests. Do not edit the .pyx files' cdef kernels (they cannot be recompiled here; Cython is not installed -- Python-level code in .pyx files is likewise not recompiled, so prefer .py files). Do not break unrelated behaviour more than necessary.

Then write a demonstration program {wt}/_out/demo.py that exits 0 when the property holds and exits 1 (printing what went wrong) when it is violated: it must FAIL with your change and PASS without it (verify both: save your change with `git diff -- smpl_extract > _out/patch.diff`, undo it with `git apply -R _out/patch.diff`, run the demo, re-apply with `git apply _out/patch.diff`. NEVER use `git stash`: the stash is shared with other worktrees of this repository and other people are working in them right now. Before you finish, check that `git status` shows only the file(s) you meant to change). The demo must import the worktree's code: start it with `import sys; sys.path.insert(0, "{wt}")`. There are no sample disc images available: build any input bytes you need inside the demo (read the parsers to learn the formats), or drive the relevant classes/functions directly. The broken behaviour must be REACHABLE by a user of the tool: through `ls` / `export` on some input file, or through the public function / class the property names, fed with inputs that the tool's own parsers or callers can produce -- a defect that only shows on an object graph you assemble by hand and that no parser ever builds does not count.

{avoid_text}Deliverables (all under {wt}/_out/):
  patch.diff  -- output of `cd {wt} && git diff -- smpl_extract` (your change only)
  demo.py     -- as above
  notes.md    -- 5-10 lines: what you changed, why it breaks the property, what is needed for it to manifest, and the exact commands you ran with their results (tests with the change; demo with and without the change).
Leave the change applied in the worktree when you finish. Python to use: /venv/bin/python. Keep it focused; do not spend effort on anything else. Final answer: a 3-line summary.""")
