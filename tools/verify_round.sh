#!/bin/bash
# usage: tools/verify_round.sh <letter> [ids...] -- verify every finished seed of the round (own check only), print one line each
cd /verif
letter=$1; shift
ids=${@:-$(./check --list)}
for id in $ids; do
  if [ -s /tmp/wt/$id/_out/demo.py ] && [ -n "$(cd /tmp/wt/$id && git diff -- smpl_extract)" ]; then
    r=$(tools/verify_seed.sh $id /tmp/wt/$id $id-$letter $id 2>&1 | tail -1)
    echo "$id-$letter $r"
  else
    echo "$id-$letter NOT READY"
  fi
done
