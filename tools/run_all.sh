#!/bin/bash
# usage: tools/run_all.sh [quick|thorough] [ids...]   -- runs the checks sequentially, prints one summary line each
cd "$(dirname "$(readlink -f "$0")")/.." || exit 2
tier=${1:-quick}; shift
ids=${@:-$(./check --list)}
rc=0
for id in $ids; do
  s=$(date +%s.%N)
  out=$(./check "$id" --tier "$tier" 2>&1); code=$?
  e=$(date +%s.%N)
  printf "%s exit=%d wall=%.1fs  %s\n" "$id" "$code" "$(echo "$e - $s" | bc)" "$(echo "$out" | tail -1)"
  if [ $code -ne 0 ]; then rc=1; echo "$out" | grep -E "VIOLATION|HARNESS|KNOWN" | head -5; fi
done
exit $rc
