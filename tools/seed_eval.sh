#!/bin/bash
# usage: tools/seed_eval.sh <patch.diff> [tier] [ids...]
# Applies the patch to /repo, runs the baseline tests, runs the given checks (default: all, quick), reverts. Prints a summary.
patch=$(readlink -f "$1"); tier=${2:-quick}; shift; shift
ids=${@:-$(cd /verif && ./check --list)}
cd /repo || exit 2
if [ -n "$(git status --porcelain --untracked-files=no)" ]; then echo "repo dirty, refusing"; exit 2; fi
git apply --whitespace=nowarn "$patch" || { echo "patch does not apply"; exit 2; }
trap 'cd /repo && git apply -R --whitespace=nowarn "$patch" 2>/dev/null; git checkout -- . ' EXIT
t=$(/venv/bin/python -m pytest -q -p no:cacheprovider tests 2>&1 | tail -1)
echo "tests: $t"
cd /verif
det=""
for id in $ids; do
  out=$(./check "$id" --tier "$tier" 2>&1); code=$?
  if [ $code -eq 1 ]; then det="$det $id"; echo "$id DETECTS: $(echo "$out" | grep -m1 -A1 VIOLATION | tr '\n' ' ' | cut -c1-300)";
  elif [ $code -ne 0 ]; then echo "$id HARNESS-ERROR(exit $code): $(echo "$out" | tail -3 | tr '\n' ' ' | cut -c1-300)"; fi
done
echo "detected by:${det:- NONE}"
